"""Helpers that decide 'term == specification' in D-poly, case by case over the atomic
conditions that occur in the term (the leaves of the gated result)."""
import itertools
from fractions import Fraction
from . import term as T, poly as P

class Undecided(Exception):
    pass

def eq_subst(cond, truth):
    """if the literal (cond == truth) pins an input to a value, return (atom node, replacement node)"""
    if cond.op in ('fcmp', 'icmp') and ((cond.attr in ('oeq', 'eq') and truth) or (cond.attr == 'one' and not truth)):
        a, b = cond.args
        while a.op in ('fpext', 'fptrunc', 'sext'): a = a.args[0]
        while b.op in ('fpext', 'fptrunc', 'sext'): b = b.args[0]
        for x, y in ((a, b), (b, a)):
            if x.op in ('in', 'arg') and (y.op == 'const' or y.op in ('in', 'arg')):
                return (x, y)
    return None

def enumerate_cases(terms, premises=None, max_conds=14):
    """yield (assignment {cond: bool}, Ctx with the equalities of the assignment as substitutions).
    premises: {cond node: bool} fixed truth values."""
    conds = []
    for t in terms:
        for c in P.all_conds(t):
            if c not in conds: conds.append(c)
    premises = premises or {}
    free = [c for c in conds if c not in premises]
    if len(free) > max_conds:
        raise Undecided('%d independent conditions (limit %d)' % (len(free), max_conds))
    for bits in itertools.product((True, False), repeat=len(free)):
        asg = dict(premises)
        asg.update(zip(free, bits))
        yield asg

def resolve_all(term, asg):
    """resolve every ite in term under asg; conditions are re-evaluated after inner resolution, so
    nested conditions whose operands change are looked up by their *original* node"""
    return T.resolve(term, asg)

def ctx_for(asg, base_rules=None, names=None):
    ctx = P.Ctx(names)
    contradictory = False
    for c, v in asg.items():
        s = eq_subst(c, v)
        if s is None: continue
        x, y = s
        k = ctx.key(x)
        if y.op == 'const':
            val = T.const_value(y) if not y.attr[0].startswith('i') else T.signed(y)
            if isinstance(val, str): continue
            rep = P.pconst(val)
        else:
            if y.id == x.id: continue
            rep = P.patom(ctx.key(y))
        if k in ctx.lin and ctx.lin[k] != rep:
            contradictory = True
        ctx.lin[k] = rep
    if base_rules:
        base_rules(ctx)
    return ctx, contradictory

def live_cases(terms, premises=None, max_conds=14, feasible=None):
    """cases that are actually distinguishable: group assignments by the resolved terms"""
    seen = {}
    for asg in enumerate_cases(terms, premises, max_conds):
        if feasible is not None and not feasible(asg):
            continue
        res = tuple(resolve_all(t, asg) for t in terms)
        left = [c for t in res for c in P.all_conds(t)]
        if left:
            raise Undecided('conditions remain after resolution: %s' % T.show(left[0], 3))
        yield asg, res

def show_asg(asg):
    return ', '.join('%s=%s' % (T.show(c, 2), 'T' if v else 'F') for c, v in sorted(asg.items(), key=lambda kv: kv[0].id))

class Spec:
    """symbolic inputs as Poly atoms tied to `in` nodes"""
    def __init__(self, ctx):
        self.ctx = ctx
    def atom(self, node):
        return self.ctx.reduce(P.patom(self.ctx.key(node)))
