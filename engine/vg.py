"""Value-graph extraction: abstract interpretation of one acyclic LLVM function (as serialised
by tools/irx) into gated terms (engine/term.py).  Nothing is executed: every instruction is
mapped to a term constructor; control flow is merged into ordered decision DAGs.

Result: Summary with, per exit (return / throw / abort), the path condition, the returned value
and the final abstract memory of every base object (pointer parameter, alloca, global)."""
import re
from . import term as T

class Unsupported(Exception):
    pass

MAX_PATHS = 60000

# ---------------------------------------------------------------- path sets

def true_cubes(x):
    """disjoint cubes (frozensets of (cond id, bool)) on which boolean term x is true"""
    if x is T.TRUE: return [frozenset()]
    if x is T.FALSE: return []
    if x.op == 'not':
        return [frozenset([(x.args[0].id, False)])]
    if x.op == 'ite':
        c, a, b = x.args
        out = [q | {(c.id, True)} for q in true_cubes(a)]
        out += [q | {(c.id, False)} for q in true_cubes(b)]
        return out
    return [frozenset([(x.id, True)])]

def consistent_union(p, q):
    d = dict(p)
    for c, v in q:
        if d.get(c, v) != v:
            return None
    return p | q

def simplify_paths(paths):
    paths = set(paths)
    changed = True
    while changed:
        changed = False
        buckets = {}
        for p in paths:
            for lit in p:
                key = (p - {lit}, lit[0])
                buckets.setdefault(key, []).append(p)
        for (rest, c), ps in buckets.items():
            if len(ps) >= 2:
                a, b = ps[0], ps[1]
                if a in paths and b in paths and a != b:
                    paths.discard(a); paths.discard(b); paths.add(rest)
                    changed = True
                    break
        if not changed:
            # subsumption
            lst = sorted(paths, key=len)
            keep = []
            for p in lst:
                if any(k <= p for k in keep):
                    changed = True
                    continue
                keep.append(p)
            if changed:
                paths = set(keep)
    return sorted(paths, key=lambda p: sorted(p))

def paths_to_bool(paths):
    r = T.FALSE
    for p in paths:
        c = T.TRUE
        for cid, v in sorted(p):
            n = T._nodes[cid]
            c = T.bool_and(c, n if v else T.bool_not(n))
        r = T.bool_or(r, c)
    return r

def build_tree(items, default=None):
    """items: list of (path frozenset, Node). Returns ordered decision DAG.  Literals common to
    all paths are dropped (they are implied by reaching the merge point)."""
    if not items:
        return default if default is not None else T.undef(None, 'unreachable')
    common = None
    for p, _ in items:
        common = set(p) if common is None else common & p
    items = [(p - common, v) for p, v in items]
    memo = {}
    def rec(its):
        v0 = its[0][1]
        if all(v is v0 for _, v in its):
            return v0
        key = frozenset(its)
        r = memo.get(key)
        if r is not None:
            return r
        cid = min(c for p, _ in its for c, _ in p) if any(p for p, _ in its) else None
        if cid is None:
            raise Unsupported('ambiguous merge: overlapping paths with different values')
        pos = [(p - {(cid, True)}, v) for p, v in its if (cid, False) not in p]
        neg = [(p - {(cid, False)}, v) for p, v in its if (cid, True) not in p]
        a = rec(pos) if pos else None
        b = rec(neg) if neg else None
        if a is None: r = b
        elif b is None: r = a
        else: r = T.ite(T._nodes[cid], a, b)
        memo[key] = r
        return r
    return rec(items)

# ---------------------------------------------------------------- memory

class Mem:
    """abstract contents of one base object: constant-offset cells over an optional array term"""
    __slots__ = ('base', 'cells', 'arr', 'kind')
    def __init__(self, base, kind):
        self.base = base; self.cells = {}; self.arr = None; self.kind = kind
    def copy(self):
        m = Mem(self.base, self.kind); m.cells = dict(self.cells); m.arr = self.arr
        return m
    def frozen(self):
        args = []
        for off in sorted(self.cells):
            size, v = self.cells[off]
            args.append(T.const_int(64, off)); args.append(v)
        # uninitialised local storage is canonical (its name is an artefact of instruction numbering)
        pargs = (T._nodes[int(self.base[3:])],) if self.base.startswith('sym') else ()
        under = self.arr if self.arr is not None else T.mk('mem0', ('local' if self.kind in ('alloca', 'exn') else ('sym' if pargs else self.base), self.kind), pargs, 'mem')
        if not args:
            return under
        return T.mk('mem', None, tuple([under] + args), 'mem')
    def same(self, other):
        return self.arr is other.arr and self.cells == other.cells

def cast_to(v, ty, size):
    if v.ty == ty or ty is None or v.ty is None:
        return v
    if v.op == 'undef':
        return T.undef(ty, v.attr)
    if v.op == 'const' and v.attr[1] == 0 and v.attr[0].startswith('i') and ty in ('float', 'double'):
        return T.const_fp(ty, 0)
    if v.ty == 'ptr' or ty == 'ptr':
        return T.mk('ptrcast', None, (v,), ty)
    return T.cast('bitcast', v, v.ty, ty)

LIBM = {'sqrt', 'sin', 'cos', 'tan', 'asin', 'acos', 'atan', 'atan2', 'exp', 'log', 'pow', 'fabs', 'floor', 'ceil',
        'fmod', 'nextafter', 'hypot', 'cbrt', 'log10', 'log2', 'exp2', 'sinh', 'cosh', 'tanh', 'trunc', 'round', 'copysign', 'fmin', 'fmax', 'ldexp', 'frexp', 'modf', 'rint', 'nearbyint'}

def norm_callee(name):
    """(kind, canonical name)"""
    if name.startswith('llvm.'):
        parts = name.split('.')
        base = parts[1]
        if base in ('lifetime', 'dbg', 'assume', 'experimental', 'donothing', 'invariant'):
            return ('ignore', base)
        if base in ('memcpy', 'memmove', 'memset'):
            return (base, base)
        if base == 'x86':
            return ('pure', '.'.join(parts[1:]))
        return ('pure', base)
    m = re.match(r'^([a-z0-9]+?)(f|l)?$', name)
    if name in LIBM:
        return ('pure', name)
    if m and m.group(1) in LIBM and m.group(2):
        return ('pure', m.group(1))
    return ('other', name)

def ty_norm(t):
    if t.endswith('*'):
        return 'ptr'
    return t

class Exit:
    __slots__ = ('paths', 'kind', 'ret', 'mem', 'exc', 'line')

class Summary:
    def __init__(self, fn):
        self.name = fn['name']
        self.fn = fn
        self.exits = []
        self.ignored_unwind = 0
        self.calls = []
        self.lines = {}
        self.globals_written = set()

    # -- merged views over all exits
    def _items(self, getter):
        items = []
        for e in self.exits:
            if e.kind == 'ret':
                v = getter(e)
            elif e.kind == 'throw':
                v = T.mk('throw', e.exc, (), None)
            elif e.kind == 'unwind':
                continue
            else:
                v = T.mk('abort', e.kind, (), None)
            for p in e.paths:
                items.append((p, v))
        return items

    def ret(self):
        return build_tree(self._items(lambda e: e.ret))

    def out(self, base, off, size, ty):
        def g(e):
            return self.interp.load_from(e.mem, base, off, size, ty)
        return build_tree(self._items(g))

    def throw_cond(self):
        ps = []
        for e in self.exits:
            if e.kind == 'throw':
                ps += e.paths
        return paths_to_bool(ps)

    def throw_types(self):
        return sorted(set(e.exc for e in self.exits if e.kind == 'throw'))

    def written(self, base):
        offs = {}
        for e in self.exits:
            if e.kind != 'ret': continue
            m = e.mem.get(base)
            if m is None: continue
            if m.arr is not None:
                offs['*'] = None
            for off, (size, v) in m.cells.items():
                offs[off] = size
        return offs

    def bases(self):
        s = set()
        for e in self.exits:
            s |= set(e.mem.keys())
        return s


class Interp:
    def __init__(self, module):
        self.module = module
        self.globals = {g['name']: g for g in module.get('globals', [])}
        self.funcs = {f['name']: f for f in module['functions']}
        self._ginit_cache = {}

    # ------------------------------------------------------------ constants / operands
    def const(self, o):
        k = o['k']
        if k == 'ci':
            return T.const_int(o['w'], int(o['v']))
        if k == 'cf':
            return T.const_fp(o['t'], int(o['bits']))
        if k == 'null':
            return T.mk('ptr', 'null', (T.const_int(64, 0),), 'ptr')
        if k == 'undef':
            return T.undef(ty_norm(o['t']), 'undef')
        if k == 'g':
            return T.mk('ptr', 'g:' + o['name'], (T.const_int(64, 0),), 'ptr')
        if k == 'fn':
            return T.mk('fnptr', o['name'], (), 'ptr')
        if k == 'cgep':
            b = self.const(o['base'])
            return self.ptr_add(b, T.const_int(64, o['off']))
        if k == 'zero':
            return T.mk('zeroagg', o['size'], (), ty_norm(o['t']))
        if k in ('md', 'asm'):
            return T.mk('meta', k, (), None)
        if k in ('cagg', 'cseq'):
            return T.mk('cvec', o.get('t'), tuple(self.const(e) for e in o['elems']), ty_norm(o.get('t', 'vec')))
        if k == 'unk':
            return T.undef(ty_norm(o.get('t', '')), 'poison')
        raise Unsupported('constant kind %s' % k)

    def ptr_add(self, p, delta):
        if p.op == 'ite':
            return T.ite(p.args[0], self.ptr_add(p.args[1], delta), self.ptr_add(p.args[2], delta))
        if p.op != 'ptr':
            # a pointer value of unknown provenance (loaded from memory, returned by an opaque
            # call): it becomes its own symbolic base object
            p = self.symptr(p)
        off = T.binop('add', p.args[0], delta, 'i64')
        if off.op == 'ite' and T.const_tree(off):
            def dist(o):
                if o.op == 'ite': return T.ite(o.args[0], dist(o.args[1]), dist(o.args[2]))
                return T.mk('ptr', p.attr, (o,), 'ptr')
            return dist(off)
        return T.mk('ptr', p.attr, (off,), 'ptr')

    def symptr(self, p):
        if p.op == 'ptr':
            return p
        if p.ty != 'ptr':
            raise Unsupported('non-pointer %s used as pointer' % p.op)
        return T.mk('ptr', 'sym%d' % p.id, (T.const_int(64, 0),), 'ptr')

    # ------------------------------------------------------------ memory access
    def initial(self, mem, off, size, ty):
        base = mem.base
        if mem.kind == 'alloca' or mem.kind == 'exn':
            return T.undef(ty, 'uninit')
        if mem.kind == 'gconst':
            v = self.global_read(base[2:], off, size, ty)
            if v is not None:
                return v
        return T.inp(base, off, size, ty)

    def global_cells(self, name):
        """flatten a constant initialiser into {off: (size, Node)}"""
        if name in self._ginit_cache:
            return self._ginit_cache[name]
        g = self.globals.get(name)
        cells = {}
        ok = g is not None and 'init' in g
        def walk(c, off):
            nonlocal ok
            k = c['k']
            if k == 'ci':
                cells[off] = ((c['w'] + 7) // 8, T.const_int(c['w'], int(c['v'])))
            elif k == 'cf':
                cells[off] = ({'float': 4, 'double': 8, 'half': 2}.get(c['t'], 0), T.const_fp(c['t'], int(c['bits'])))
            elif k == 'cseq':
                for i, e in enumerate(c['elems']):
                    walk(e, off + i * c['esize'])
            elif k == 'cagg':
                for o, e in zip(c['offs'], c['elems']):
                    walk(e, off + o)
            elif k == 'zero':
                cells[('zero', off)] = (c['size'], None)
            elif k in ('g', 'cgep', 'null', 'fn'):
                cells[off] = (8, self.const(c))
            else:
                ok = False
        if ok:
            walk(g['init'], 0)
        res = cells if ok else None
        self._ginit_cache[name] = res
        return res

    def global_read(self, name, off, size, ty):
        cells = self.global_cells(name)
        if cells is None:
            return None
        if off in cells and cells[off][0] == size:
            return cast_to(cells[off][1], ty, size)
        for k, (zs, _) in cells.items():
            if isinstance(k, tuple) and k[1] <= off and off + size <= k[1] + zs:
                if ty in ('float', 'double'):
                    return T.const_fp(ty, 0)
                if ty == 'ptr':
                    return T.mk('ptr', 'null', (T.const_int(64, 0),), 'ptr')
                return T.const_int(int(ty[1:]), 0)
        return None

    def getmem(self, state, base, for_write=False):
        m = state.get(base)
        if m is None:
            if base.startswith('g:'):
                g = self.globals.get(base[2:])
                kind = 'gconst' if (g and g.get('const') and 'init' in g) else 'global'
            elif re.match(r'a\d+$', base) or base.startswith('sym'):
                kind = 'param'
            elif base.startswith('exn'):
                kind = 'exn'
            elif base == 'null':
                raise Unsupported('null dereference')
            else:
                kind = 'alloca'
            m = Mem(base, kind)
            state[base] = m
        elif for_write:
            pass
        return m

    def load_from(self, state, base, off, size, ty):
        m = state.get(base)
        if m is None:
            m = Mem(base, 'param' if (re.match(r'a\d+$', base) or base.startswith('sym')) else 'global' if base.startswith('g:') else 'alloca')
            if base.startswith('g:'):
                g = self.globals.get(base[2:])
                if g and g.get('const') and 'init' in g: m.kind = 'gconst'
        return self.load_mem(m, off, size, ty)

    def load_mem(self, m, off, size, ty):
        if isinstance(off, int):
            c = m.cells.get(off)
            if c is not None and c[0] == size:
                return cast_to(c[1], ty, size)
            # overlap?
            for o, (s, v) in m.cells.items():
                if o < off + size and off < o + s:
                    # sub-read of a zero / undef cell
                    if v.op == 'zeroagg' or (v.op == 'const' and v.attr[1] == 0 and o <= off and off + size <= o + s):
                        if ty in ('float', 'double'): return T.const_fp(ty, 0)
                        if ty == 'ptr': return T.mk('ptr', 'null', (T.const_int(64, 0),), 'ptr')
                        return T.const_int(int(ty[1:]), 0)
                    if v.op == 'memref' and o <= off and off + size <= o + s:
                        srcfrozen, = v.args
                        return self.read_frozen(srcfrozen, v.attr + (off - o), size, ty)
                    return T.mk('subread', (off - o, size), (v,), ty)
            if m.arr is not None:
                return self.read_frozen(m.arr, off, size, ty)
            return self.initial(m, off, size, ty)
        # symbolic offset
        return T.mk('sel', size, (m.frozen(), off), ty)

    def read_frozen(self, fz, off, size, ty):
        """read at constant offset from a frozen memory term"""
        if fz.op == 'mem':
            args = fz.args
            for i in range(1, len(args), 2):
                if T.signed(args[i]) == off:
                    return cast_to(args[i + 1], ty, size)
            return self.read_frozen(args[0], off, size, ty)
        if fz.op == 'mem0':
            base, kind = fz.attr
            if base == 'sym': base = 'sym%d' % fz.args[0].id
            return self.initial(Mem(base, kind), off, size, ty)
        return T.mk('sel', size, (fz, T.const_int(64, off)), ty)

    def store_mem(self, m, off, size, val):
        if isinstance(off, int):
            for o in [o for o, (s, v) in m.cells.items() if o < off + size and off < o + s and not (o == off)]:
                s, v = m.cells[o]
                if off <= o and o + s <= off + size:
                    del m.cells[o]
                else:
                    raise Unsupported('partially overlapping store at %s+%d' % (m.base, off))
            m.cells[off] = (size, val)
        else:
            fz = m.frozen()
            m.arr = T.mk('upd', size, (fz, off, val), 'mem')
            m.cells = {}

    def load(self, state, p, size, ty):
        if p.op == 'ite':
            return T.ite(p.args[0], self.load(state, p.args[1], size, ty), self.load(state, p.args[2], size, ty))
        if p.op != 'ptr':
            p = self.symptr(p)
        m = self.getmem(state, p.attr)
        off = p.args[0]
        off = T.signed(off) if T.is_const(off) else off
        return self.load_mem(m, off, size, ty)

    def store(self, state, p, size, val, guard=None):
        if p.op == 'ite':
            c = p.args[0]
            self.store(state, p.args[1], size, val, c if guard is None else T.bool_and(guard, c))
            nc = T.bool_not(c)
            self.store(state, p.args[2], size, val, nc if guard is None else T.bool_and(guard, nc))
            return
        if p.op != 'ptr':
            p = self.symptr(p)
        base = p.attr
        m = self.getmem(state, base)
        off = p.args[0]
        off = T.signed(off) if T.is_const(off) else off
        if guard is not None:
            old = self.load_mem(m, off, size, val.ty)
            val = T.ite(guard, val, old)
        m2 = m.copy()
        self.store_mem(m2, off, size, val)
        state[base] = m2

    # ------------------------------------------------------------ main
    def run_loop_body(self, name):
        """one symbolic iteration of every loop: header phis become fresh loop variables, back edges are
        ignored.  Returns {'summary': Summary, 'loopvars': [...], 'stored': (loopvar, offset, value) | None}"""
        S = self.run(name, loop_body=True)
        out = {'summary': S, 'stored': None}
        for e in S.exits:
            if e.kind != 'backedge': continue
            for base, m in e.mem.items():
                a = m.arr
                while a is not None and a.op == 'ite':
                    a = a.args[1]
                if a is not None and a.op == 'upd':
                    off, v = a.args[1], a.args[2]
                    lv = None
                    stack = [off]; seen = set()
                    while stack:
                        x = stack.pop()
                        if x.id in seen: continue
                        seen.add(x.id)
                        if x.op == 'loopvar': lv = x; break
                        stack.extend(x.args)
                    if lv is not None:
                        out['stored'] = (lv, off, v)
        return out

    def run(self, name, loop_body=False):
        fn = self.funcs[name]
        if fn.get('cyclic') and not loop_body:
            raise Unsupported('function has a loop')
        S = Summary(fn)
        S.interp = self
        blocks = {b['id']: b for b in fn['blocks']}
        order = self.topo(fn)
        pos = {b: i for i, b in enumerate(order)}
        headers = set()
        if loop_body:
            for b in fn['blocks']:
                if b['id'] in pos and any(p in pos and pos[p] >= pos[b['id']] for p in b['preds']):
                    headers.add(b['id'])
        env = {}
        for i, a in enumerate(fn['args']):
            t = ty_norm(a['t'])
            if t == 'ptr':
                env[('a', i)] = T.mk('ptr', 'a%d' % i, (T.const_int(64, 0),), 'ptr')
            else:
                env[('a', i)] = T.arg(i, t)
        entry = fn['blocks'][0]['id']
        reach = {entry: [frozenset()]}
        instate = {entry: {}}
        edges = {}   # (pred, succ) -> (paths, state)
        nexn = [0]

        def val(o):
            k = o['k']
            if k == 'v':
                try:
                    return env[o['id']]
                except KeyError:
                    raise Unsupported('use of value %d before definition (unwind-only block?)' % o['id'])
            if k == 'a':
                return env[('a', o['i'])]
            return self.const(o)

        for bid in order:
            b = blocks[bid]
            if bid != entry:
                inc = [(p, edges[(p, bid)]) for p in b['preds'] if (p, bid) in edges]
                if not inc:
                    continue
                allpaths = []
                for _, (ps, _) in inc:
                    allpaths += ps
                if len(allpaths) > MAX_PATHS:
                    raise Unsupported('path explosion (%d)' % len(allpaths))
                reach[bid] = simplify_paths(allpaths)
                # merge memory
                if len(inc) == 1:
                    st = dict(inc[0][1][1])
                else:
                    st = {}
                    bases = set()
                    for _, (_, s) in inc: bases |= set(s.keys())
                    for base in bases:
                        mems = [s.get(base) for _, (_, s) in inc]
                        first = next(m for m in mems if m is not None)
                        if all(m is not None and (m is first or m.same(first)) for m in mems):
                            st[base] = first
                            continue
                        arrs = [m.arr if m is not None else None for m in mems]
                        if all(a is not None and a.op == 'upd' and not m.cells for a, m in zip(arrs, mems)) and len(set((a.args[0].id, a.args[1].id, a.attr) for a in arrs)) == 1:
                            # every predecessor stored to the same symbolic element: merge the stored values
                            items = []
                            for (_, (ps, s)), a in zip(inc, arrs):
                                for p in ps: items.append((p, a.args[2]))
                            nm = Mem(base, first.kind)
                            nm.arr = T.mk('upd', arrs[0].attr, (arrs[0].args[0], arrs[0].args[1], build_tree(items)), 'mem')
                            st[base] = nm
                            continue
                        if any(m is not None and m.arr is not None for m in mems):
                            # array-level merge
                            items = []
                            for (_, (ps, s)), m in zip(inc, mems):
                                mm = m if m is not None else Mem(base, first.kind)
                                fz = mm.frozen()
                                for p in ps: items.append((p, fz))
                            nm = Mem(base, first.kind)
                            nm.arr = build_tree(items)
                            st[base] = nm
                            continue
                        offs = {}
                        for m in mems:
                            if m is None: continue
                            for off, (size, v) in m.cells.items():
                                if off in offs and offs[off][0] != size:
                                    raise Unsupported('cell size mismatch at merge')
                                offs[off] = (size, v.ty)
                        nm = Mem(base, first.kind)
                        for off, (size, ty) in offs.items():
                            items = []
                            for (_, (ps, s)), m in zip(inc, mems):
                                mm = m if m is not None else Mem(base, first.kind)
                                v = self.load_mem(mm, off, size, ty)
                                for p in ps: items.append((p, v))
                            nm.cells[off] = (size, build_tree(items))
                        st[base] = nm
                instate[bid] = st
            state = instate[bid]
            paths = reach[bid]
            term_done = False
            for ins in b['insts']:
                op = ins['op']
                iid = ins['id']
                ty = ty_norm(ins['t'])
                ops = ins['ops']
                if ins.get('fmf'):
                    raise Unsupported('fast-math flag present')
                if op == 'phi' and bid in headers:
                    env[iid] = T.mk('loopvar', (bid, iid), (), ty)
                elif op == 'phi':
                    items = []
                    for o, pb in ops:
                        if (pb, bid) not in edges: continue
                        v = val(o)
                        for p in edges[(pb, bid)][0]:
                            items.append((p, v))
                    env[iid] = build_tree(items)
                elif op in ('fadd', 'fsub', 'fmul', 'fdiv', 'frem', 'add', 'sub', 'mul', 'and', 'or', 'xor', 'shl', 'lshr', 'ashr', 'sdiv', 'udiv', 'srem', 'urem'):
                    env[iid] = T.binop(op, val(ops[0]), val(ops[1]), ty)
                elif op == 'fneg':
                    env[iid] = T.fneg(val(ops[0]))
                elif op in ('icmp', 'fcmp'):
                    a, c = val(ops[0]), val(ops[1])
                    if a.ty == 'ptr' or c.ty == 'ptr':
                        env[iid] = self.ptrcmp(ins['pred'], a, c)
                    else:
                        env[iid] = T.cmp(op, ins['pred'], a, c)
                elif op == 'select':
                    env[iid] = T.ite(val(ops[0]), val(ops[1]), val(ops[2]))
                elif op in ('zext', 'sext', 'trunc', 'fpext', 'fptrunc', 'sitofp', 'uitofp', 'fptosi', 'fptoui'):
                    v = val(ops[0])
                    if op == 'zext' and v.ty == 'i1':
                        env[iid] = T.ite(v, T.const_int(int(ty[1:]), 1), T.const_int(int(ty[1:]), 0))
                    elif op == 'sext' and v.ty == 'i1':
                        env[iid] = T.ite(v, T.const_int(int(ty[1:]), -1), T.const_int(int(ty[1:]), 0))
                    elif op == 'trunc' and ty == 'i1' and v.op == 'ite' and all(l.op == 'const' for _, l in T.leaves(v)):
                        env[iid] = T.subst(v, {})  # placeholder, replaced below
                        def tr(x):
                            if x.op == 'ite': return T.ite(x.args[0], tr(x.args[1]), tr(x.args[2]))
                            return T.TRUE if x.attr[1] & 1 else T.FALSE
                        env[iid] = tr(v)
                    elif v.op == 'ite' and all(l.op == 'const' for _, l in T.leaves(v, 64)) and len(T.leaves(v, 64)) <= 8:
                        def cs(x):
                            if x.op == 'ite': return T.ite(x.args[0], cs(x.args[1]), cs(x.args[2]))
                            return T.cast(op, x, ty_norm(ins['st']), ty)
                        env[iid] = cs(v)
                    else:
                        env[iid] = T.cast(op, v, ty_norm(ins['st']), ty)
                elif op == 'bitcast':
                    v = val(ops[0])
                    if v.ty == 'ptr' and ty == 'ptr':
                        env[iid] = v
                    else:
                        env[iid] = T.cast('bitcast', v, ty_norm(ins['st']), ty)
                elif op in ('ptrtoint', 'inttoptr', 'addrspacecast'):
                    env[iid] = T.mk(op, None, (val(ops[0]),), ty)
                elif op == 'alloca':
                    env[iid] = T.mk('ptr', 'alloca%d' % iid, (T.const_int(64, 0),), 'ptr')
                elif op == 'getelementptr':
                    p = val(ops[0])
                    delta = T.const_int(64, ins['off'])
                    for g in ins['gep']:
                        idx = val(g['idx'])
                        if idx.ty != 'i64':
                            idx = T.cast('sext', idx, idx.ty, 'i64')
                        delta = T.binop('add', delta, T.binop('mul', idx, T.const_int(64, g['stride']), 'i64'), 'i64')
                    env[iid] = self.ptr_add(p, delta)
                elif op == 'load':
                    env[iid] = self.load(state, val(ops[0]), ins['size'], ty)
                    if ins.get('line'): S.lines.setdefault(env[iid].id, (ins.get('file'), ins['line']))
                elif op == 'store':
                    v = val(ops[0])
                    if state is instate[bid] and bid in instate:
                        state = dict(state); instate[bid] = state
                    self.store(state, val(ops[1]), ins['size'], v)
                elif op in ('call', 'invoke'):
                    r = self.do_call(S, state, ins, [val(o) for o in ops], ty, nexn, paths)
                    if r == 'noreturn-throw':
                        term_done = True
                        break
                    if r == 'noreturn':
                        e = Exit(); e.paths = paths; e.kind = 'abort:' + str(ins.get('callee')); e.ret = None; e.mem = state; e.exc = None; e.line = ins.get('line')
                        S.exits.append(e)
                        term_done = True
                        break
                    if r is not None:
                        env[iid] = r
                    if op == 'invoke':
                        S.ignored_unwind += 1
                        edges[(bid, ins['normal'])] = (paths, state)
                        term_done = True
                        break
                elif op == 'extractvalue':
                    v = val(ops[0])
                    env[iid] = T.mk('extractvalue', tuple(ins['idxs']), (v,), ty)
                    if v.op == 'insertvalue' and v.attr == tuple(ins['idxs']):
                        env[iid] = v.args[1]
                elif op == 'insertvalue':
                    env[iid] = T.mk('insertvalue', tuple(ins['idxs']), (val(ops[0]), val(ops[1])), ty)
                elif op == 'br':
                    def backedge(dest, ps):
                        if loop_body and dest in headers and pos[dest] <= pos[bid]:
                            e = Exit(); e.paths = ps; e.kind = 'backedge'; e.ret = None; e.mem = state; e.exc = None; e.line = ins.get('line')
                            S.exits.append(e)
                            return True
                        return False
                    if len(ops) == 1:
                        if not backedge(ops[0]['id'], paths):
                            edges[(bid, ops[0]['id'])] = (paths, state)
                    else:
                        c = val(ops[0])
                        # ops: cond, false-dest? LLVM operand order for br is (cond, false, true)
                        tdest, fdest = ops[2]['id'], ops[1]['id']
                        tc = true_cubes(c); fc = true_cubes(T.bool_not(c))
                        for dest, cubes in ((tdest, tc), (fdest, fc)):
                            ps = []
                            for p in paths:
                                for q in cubes:
                                    u = consistent_union(p, q)
                                    if u is not None: ps.append(u)
                            if len(ps) > MAX_PATHS:
                                raise Unsupported('path explosion (%d)' % len(ps))
                            if ps:
                                if backedge(dest, ps):
                                    continue
                                if (bid, dest) in edges:
                                    ps = edges[(bid, dest)][0] + ps
                                edges[(bid, dest)] = (ps, state)
                    term_done = True
                elif op == 'switch':
                    c = val(ops[0])
                    w = int(c.ty[1:])
                    rest = paths
                    dests = {}
                    neg = T.TRUE
                    for cv, dest in ins['cases']:
                        eq = T.cmp('icmp', 'eq', c, T.const_int(w, int(cv)))
                        cond = T.bool_and(neg, eq)
                        dests.setdefault(dest, []).append(cond)
                        neg = T.bool_and(neg, T.bool_not(eq))
                    dests.setdefault(ins['default'], []).append(neg)
                    for dest, conds in dests.items():
                        ps = []
                        for cond in conds:
                            for q in true_cubes(cond):
                                for p in paths:
                                    u = consistent_union(p, q)
                                    if u is not None: ps.append(u)
                        if ps:
                            edges[(bid, dest)] = (ps, state)
                    term_done = True
                elif op == 'ret':
                    e = Exit(); e.paths = paths; e.kind = 'ret'; e.ret = val(ops[0]) if ops else None; e.mem = state; e.exc = None; e.line = ins.get('line')
                    S.exits.append(e)
                    term_done = True
                elif op == 'unreachable':
                    e = Exit(); e.paths = paths; e.kind = 'unreachable'; e.ret = None; e.mem = state; e.exc = None; e.line = ins.get('line')
                    S.exits.append(e)
                    term_done = True
                elif op == 'resume':
                    e = Exit(); e.paths = paths; e.kind = 'unwind'; e.ret = None; e.mem = state; e.exc = None; e.line = ins.get('line')
                    S.exits.append(e)
                    term_done = True
                elif op == 'landingpad':
                    env[iid] = T.undef(ty, 'landingpad')
                elif op == 'freeze':
                    env[iid] = val(ops[0])
                elif op in ('insertelement', 'extractelement', 'shufflevector'):
                    env[iid] = T.mk(op, tuple(ins.get('mask', ())) or None, tuple(val(o) for o in ops), ty)
                else:
                    raise Unsupported('opcode %s' % op)
            if not term_done:
                raise Unsupported('block without terminator')
        return S

    def ptrcmp(self, pred, a, b):
        if a.op == 'ptr' and b.op == 'ptr':
            if a.attr == b.attr:
                return T.cmp('icmp', pred, a.args[0], b.args[0])
            if pred in ('eq', 'ne') and ('null' in (a.attr, b.attr)):
                # a parameter reference / alloca / global is never null
                return T.FALSE if pred == 'eq' else T.TRUE
            if pred in ('eq', 'ne'):
                # distinct base objects: assumed not to alias (wrappers pass distinct objects)
                n = T.mk('ptreq', None, tuple(sorted((a, b), key=lambda x: x.id)), 'i1')
                return n if pred == 'eq' else T.bool_not(n)
        return T.mk('ptrcmp', pred, (a, b), 'i1')

    def do_call(self, S, state, ins, args, ty, nexn, paths):
        callee = ins.get('callee')
        if callee is None:
            raise Unsupported('indirect call')
        kind, name = norm_callee(callee)
        if kind == 'ignore':
            return None
        if kind == 'pure' and name == 'frexp' and len(args) == 2 and args[1].ty == 'ptr':
            # x = m * 2^e: the mantissa is the value, the exponent goes through the pointer
            self.store(state, args[1], 4, T.call('frexp_exp', [args[0]], 'i32'))
            return T.call('frexp_man', [args[0]], ty)
        if kind == 'pure':
            return T.call(name, args, ty)
        if kind in ('memcpy', 'memmove'):
            dst, src, n = args[0], args[1], args[2]
            if not T.is_const(n):
                raise Unsupported('memcpy with symbolic length')
            n = n.attr[1]
            if n == 0: return None
            if dst.op != 'ptr' or src.op != 'ptr' or not T.is_const(dst.args[0]) or not T.is_const(src.args[0]):
                raise Unsupported('memcpy with symbolic pointers')
            sm = self.getmem(state, src.attr)
            soff = T.signed(src.args[0]); doff = T.signed(dst.args[0])
            dm = self.getmem(state, dst.attr).copy()
            for o in [o for o, (s, v) in dm.cells.items() if o < doff + n and doff < o + s]:
                s, v = dm.cells[o]
                if doff <= o and o + s <= doff + n: del dm.cells[o]
                else: raise Unsupported('memcpy partially overlaps a cell')
            copied = False
            for o, (s, v) in sorted(sm.cells.items()):
                if soff <= o and o + s <= soff + n:
                    dm.cells[doff + (o - soff)] = (s, v); copied = True
            # the remainder is described lazily
            if not copied or sum(s for o, (s, v) in sm.cells.items() if soff <= o and o + s <= soff + n) != n:
                if copied:
                    raise Unsupported('memcpy of partially written source')
                dm.cells[doff] = (n, T.mk('memref', soff, (sm.frozen(),), 'mem'))
            state[dst.attr] = dm
            return None
        if kind == 'memset':
            dst, v, n = args[0], args[1], args[2]
            if not (T.is_const(n) and T.is_const(v) and v.attr[1] == 0 and dst.op == 'ptr' and T.is_const(dst.args[0])):
                raise Unsupported('memset form')
            dm = self.getmem(state, dst.attr).copy()
            doff = T.signed(dst.args[0]); n = n.attr[1]
            for o in [o for o, (s, v) in dm.cells.items() if o < doff + n and doff < o + s]:
                del dm.cells[o]
            dm.cells[doff] = (n, T.mk('zeroagg', n, (), 'mem'))
            state[dst.attr] = dm
            return None
        if name == '__cxa_allocate_exception':
            nexn[0] += 1
            return T.mk('ptr', 'exn%d' % nexn[0], (T.const_int(64, 0),), 'ptr')
        if name == '__cxa_free_exception':
            return None
        if name == '__cxa_throw':
            ti = args[1]
            tname = ti.attr if ti.op == 'ptr' else '?'
            e = Exit(); e.paths = paths; e.kind = 'throw'; e.ret = None; e.mem = state; e.exc = tname.replace('g:', ''); e.line = ins.get('line')
            S.exits.append(e)
            return 'noreturn-throw'
        if 'throw_error_already_set' in name:
            # Boost.Python's way of raising the pending Python error: a C++ throw (not marked noreturn in its declaration)
            e = Exit(); e.paths = paths; e.kind = 'throw'; e.ret = None; e.mem = state; e.exc = 'boost::python::error_already_set'; e.line = ins.get('line')
            S.exits.append(e)
            return 'noreturn-throw'
        if ins.get('noreturn'):
            return 'noreturn'
        # opaque call: pointer arguments' pointees are inputs and (unless const-qualified, which
        # the IR does not tell us) outputs.
        cargs = []
        ptr_bases = []
        ro = ins.get('ro') or []
        readonly_bases = set()
        for ai, a in enumerate(args):
            if a.ty == 'ptr' and a.op == 'ptr' and ai < len(ro) and ro[ai]:
                readonly_bases.add(a.attr)
            if a.ty == 'ptr':
                if a.op == 'ptr':
                    base = a.attr
                    if base.startswith('exn') or base.startswith('g:.str') or base == 'null':
                        cargs.append(a)
                        continue
                    m = self.getmem(state, base)
                    if m.kind == 'alloca':
                        # the address of a local is an artefact of instruction numbering: name it by its position
                        # among this call's pointer arguments (aliasing between arguments stays visible)
                        k = ptr_bases.index(base) if base in ptr_bases else len(ptr_bases)
                        cargs.append(T.mk('ptr', 'local#%d' % k, a.args, 'ptr'))
                    else:
                        cargs.append(a)
                    cargs.append(m.frozen())
                    ptr_bases.append(base)
                elif a.op == 'ite':
                    raise Unsupported('opaque call with merged pointer argument')
                else:
                    cargs.append(a)
            else:
                cargs.append(a)
        node = T.call(name, cargs, ty)
        S.calls.append((name, node, ins.get('line')))
        for i, base in enumerate(ptr_bases):
            g = self.globals.get(base[2:]) if base.startswith('g:') else None
            if g is not None and g.get('const'):
                continue
            if base in readonly_bases and sum(1 for a in args if a.op == 'ptr' and a.attr == base) == 1:
                continue        # the callee provably only reads through this argument (LLVM function-attrs)
            nm = Mem(base, state[base].kind)
            nm.arr = T.mk('callmem', i, (node,), 'mem')
            state[base] = nm
        return node

    def topo(self, fn):
        blocks = fn['blocks']
        succs = {}
        for b in blocks:
            t = b['insts'][-1]
            s = []
            if t['op'] == 'br':
                s = [o['id'] for o in t['ops'] if o['k'] == 'bb']
            elif t['op'] == 'switch':
                s = [d for _, d in t['cases']] + [t['default']]
            elif t['op'] == 'invoke':
                s = [t['normal'], t['unwind']]
            succs[b['id']] = s
        seen = set(); order = []
        def dfs(u):
            stack = [(u, iter(succs[u]))]
            seen.add(u)
            while stack:
                node, it = stack[-1]
                adv = False
                for v in it:
                    if v not in seen:
                        seen.add(v); stack.append((v, iter(succs[v]))); adv = True
                        break
                if not adv:
                    order.append(node); stack.pop()
        dfs(blocks[0]['id'])
        order.reverse()
        return order


def load_module(path):
    import json
    with open(path) as f:
        return json.load(f)
