"""D-ord: exact evaluation of comparison-only code on every weak ordering of its leaves.

A term whose only operations between leaves and result are comparisons, boolean connectives and
selection denotes, on a totally ordered (NaN-free) domain, a function of the weak ordering of the
leaves.  Leaves are input slots, constants (pinned by their numeric value) and maximal arithmetic
sub-terms (opaque ordered values).  We enumerate all weak orderings per connected component of
the 'is compared with' relation and evaluate implementation and specification on each."""
import itertools
from fractions import Fraction
from . import term as T

class NotOrd(Exception):
    pass

ARITH = {'fadd', 'fmul', 'fdiv', 'fneg', 'add', 'sub', 'mul', 'sdiv', 'call', 'fpext', 'fptrunc', 'sitofp', 'sext', 'zext', 'trunc', 'sel', 'bitcast', 'absi'}

def is_leaf(n):
    return n.op in ('in', 'arg', 'const') or n.op in ARITH

def collect(terms):
    """(leaves list, conds list) reachable through ite/cmp/not structure only"""
    leaves = []; conds = []; seen = set()
    stack = list(terms)
    while stack:
        x = stack.pop()
        if x.id in seen: continue
        seen.add(x.id)
        if x.op == 'ite':
            stack.extend(x.args)
        elif x.op == 'not':
            stack.append(x.args[0])
        elif x.op in ('fcmp', 'icmp'):
            conds.append(x)
            for a in x.args:
                if a.op == 'ite':
                    stack.append(a)
                elif a.id not in seen:
                    seen.add(a.id)
                    if not is_leaf(a): raise NotOrd('operand %s of a comparison' % a.op)
                    leaves.append(a)
        elif x.op == 'tuple':
            stack.extend(x.args)
        elif is_leaf(x):
            leaves.append(x)
        else:
            raise NotOrd('operation %s is not order-only' % x.op)
    return leaves, conds

def cmp_leaves(c):
    """the leaf nodes compared by cond c (through ites)"""
    out = []
    for a in c.args:
        stack = [a]
        while stack:
            x = stack.pop()
            if x.op == 'ite':
                stack.extend(x.args[1:])
                # conditions inside are handled on their own
            else:
                out.append(x)
    return out

def components(leaves, conds, extra_links=()):
    parent = {l.id: l.id for l in leaves}
    def find(x):
        while parent[x] != x:
            parent[x] = parent[parent[x]]; x = parent[x]
        return x
    def union(a, b):
        if a in parent and b in parent:
            parent[find(a)] = find(b)
    for c in conds:
        ls = [l for l in cmp_leaves(c) if l.op != 'const']
        for l in ls[1:]:
            union(ls[0].id, l.id)
    for a, b in extra_links:
        union(a.id, b.id)
    groups = {}
    for l in leaves:
        if l.op == 'const': continue
        groups.setdefault(find(l.id), []).append(l)
    return list(groups.values())

def const_num(n):
    if n.attr[0].startswith('i'):
        return T.signed(n)
    v = T.const_value(n)
    if v == 'inf': return Fraction(10) ** 400
    if v == '-inf': return -Fraction(10) ** 400
    if v == 'nan': raise NotOrd('NaN constant')
    return v

_wo_cache = {}
def weak_orderings(n):
    """all weak orderings of n items as rank tuples (ranks 0..k-1, every rank used)"""
    if n in _wo_cache: return _wo_cache[n]
    res = []
    def rec(i, ranks, k):
        if i == n:
            res.append(tuple(ranks)); return
        # item i: placed into an existing rank class, or a new class inserted at any position
        for r in range(k):
            ranks.append(r); rec(i + 1, ranks, k); ranks.pop()
        for pos in range(k + 1):
            nr = [x + 1 if x >= pos else x for x in ranks]
            nr.append(pos); rec(i + 1, nr, k + 1)
    rec(0, [], 0)
    res = sorted(set(res))
    _wo_cache[n] = res
    return res

def group_envs(group, consts):
    """orderings of the group's variables together with the constants they are compared with;
    constants keep their numeric order.  yields dict node id -> Fraction rank"""
    cs = sorted(set(consts), key=const_num)
    # distinct by value
    vals = []
    for c in cs:
        v = const_num(c)
        if not vals or vals[-1][0] != v: vals.append((v, [c]))
        else: vals[-1][1].append(c)
    n = len(group); m = len(vals)
    out = []
    for wo in weak_orderings(n + m):
        cr = wo[n:]
        if any(cr[i] >= cr[i + 1] for i in range(m - 1)): continue
        env = {}
        for g, r in zip(group, wo[:n]): env[g.id] = r
        for (v, cl), r in zip(vals, cr):
            for c in cl: env[c.id] = r
        out.append(env)
    return out

def all_envs(terms, extra_links=(), limit=3000000):
    leaves, conds = collect(terms)
    comps = components(leaves, conds, extra_links)
    # constants compared with members of each component
    per = []
    total = 1
    for g in comps:
        ids = set(l.id for l in g)
        cs = []
        for c in conds:
            ls = cmp_leaves(c)
            if any(l.id in ids for l in ls):
                cs += [l for l in ls if l.op == 'const']
        envs = group_envs(g, cs)
        per.append(envs)
        total *= len(envs)
        if total > limit:
            raise NotOrd('%d joint orderings exceed the limit' % total)
    return per, total, leaves, conds

def iter_envs(per):
    for combo in itertools.product(*per):
        env = {}
        for e in combo: env.update(e)
        yield env

def rank(n, env):
    r = env.get(n.id)
    if r is None:
        if n.op == 'const':
            # constant never compared: its rank is irrelevant, but it must be distinguishable
            return ('c', const_num(n))
        raise NotOrd('leaf %s has no rank' % T.show(n, 2))
    return r

def ev(n, env, memo=None):
    """evaluate: booleans -> bool; values -> the selected leaf node"""
    if memo is None: memo = {}
    def rec(x):
        k = x.id
        if k in memo: return memo[k]
        if x.op == 'ite':
            r = rec(x.args[1]) if rec(x.args[0]) else rec(x.args[2])
        elif x.op == 'not':
            r = not rec(x.args[0])
        elif x.op in ('fcmp', 'icmp'):
            a, b = rec(x.args[0]), rec(x.args[1])
            ra, rb = rank(a, env), rank(b, env)
            p = x.attr
            if p in ('olt', 'slt'): r = ra < rb
            elif p == 'ole': r = ra <= rb
            elif p in ('oeq', 'eq'): r = ra == rb
            elif p == 'one': r = ra != rb
            elif p == 'ord': r = True
            else: raise NotOrd('predicate %s' % p)
        elif x.op == 'const' and x.ty == 'i1':
            r = bool(x.attr[1])
        elif x.op == 'tuple':
            r = tuple(rec(a) for a in x.args)
        else:
            r = x
        memo[k] = r
        return r
    return rec(n)
