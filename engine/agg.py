"""Descriptions of Imath's aggregate types and element types, and wrapper-TU generation."""
from . import term as T

# key: (C++ spelling, sizeof, LLVM scalar type)
ELEM = {
    'f': ('float', 4, 'float'),
    'd': ('double', 8, 'double'),
    'h': ('half', 2, 'i16'),
    's': ('short', 2, 'i16'),
    'i': ('int', 4, 'i32'),
    'l': ('int64_t', 8, 'i64'),
    'c': ('verif_uchar', 1, 'i8'),
}

# aggregate: C++ template, number of slots, named slots in declaration order
AGG = {
    'V2': ('Vec2<%s>', 2, ['x', 'y']),
    'V3': ('Vec3<%s>', 3, ['x', 'y', 'z']),
    'V4': ('Vec4<%s>', 4, ['x', 'y', 'z', 'w']),
    'C3': ('Color3<%s>', 3, ['x', 'y', 'z']),
    'C4': ('Color4<%s>', 4, ['r', 'g', 'b', 'a']),
    'S6': ('Shear6<%s>', 6, ['xy', 'xz', 'yz', 'yx', 'zx', 'zy']),
    'Q': ('Quat<%s>', 4, ['r', 'v.x', 'v.y', 'v.z']),
    'M22': ('Matrix22<%s>', 4, None),
    'M33': ('Matrix33<%s>', 9, None),
    'M44': ('Matrix44<%s>', 16, None),
}
MATDIM = {'M22': 2, 'M33': 3, 'M44': 4}

HEADER = '''#include <ImathVec.h>
#include <ImathColor.h>
#include <ImathShear.h>
#include <ImathQuat.h>
#include <ImathMatrix.h>
#include <ImathMatrixAlgo.h>
#include <ImathMath.h>
#include <ImathFun.h>
#include <half.h>
#include <cstdint>
using namespace IMATH_INTERNAL_NAMESPACE;
typedef unsigned char verif_uchar;
'''

def cpp(agg, t):
    return AGG[agg][0] % ELEM[t][0]

def slot_name(agg, i):
    names = AGG[agg][2]
    if names:
        return names[i]
    d = MATDIM[agg]
    return 'x[%d][%d]' % (i // d, i % d)

def slot_in(base, i, t):
    """initial content of slot i of the aggregate passed as pointer parameter `base`"""
    _, sz, lt = ELEM[t]
    return T.inp(base, i * sz, sz, lt)

def scalar_in(base, t):
    _, sz, lt = ELEM[t]
    return T.inp(base, 0, sz, lt)

class TU:
    """a wrapper translation unit under construction"""
    def __init__(self, name, header=HEADER, opaque=()):
        self.name = name
        self.header = header
        self.fns = []
        self.meta = {}
        self.opaque = tuple(opaque)
    def add(self, wname, params, body, **meta):
        assert wname not in self.meta, wname
        self.fns.append('void %s(%s) { %s }' % (wname, params, body))
        meta['name'] = wname
        self.meta[wname] = meta
    def source(self):
        return self.header + 'extern "C" {\n' + '\n'.join(self.fns) + '\n}\n'
    def spec(self):
        return {'name': self.name, 'source': self.source(), 'opaque': self.opaque}
