#!/usr/bin/env python3
"""Regenerate the table of DESIGN.md section 11.2 from evidence/*.json and manifest_table.py (between the check-table markers)."""
import json, os, sys
VERIF = os.path.dirname(os.path.dirname(os.path.abspath(__file__)))
sys.path.insert(0, VERIF)
from manifest_table import CHECKS
rows = []
for pid in sorted(CHECKS):
    ev = json.load(open(os.path.join(VERIF, 'evidence', pid + '.json')))
    cov = ev.get('coverage', {})
    rules = cov.get('rules', {})
    nob = sum(r.get('obligations', 0) for r in rules.values())
    rl = ', '.join('%s (%d)' % (k, v.get('obligations', 0)) for k, v in sorted(rules.items()))
    rows.append('| %s | %s | %d | %d s | %s |' % (pid, CHECKS[pid]['level'], nob, round(ev.get('wall_s', 0)), rl))
tbl = '| id | level | obligations (%s) | wall | rules (obligations each; statements in the module docstring and in MANIFEST.json) |\n|----|-------|--------------------:|-----:|------|\n' % 'quick' + '\n'.join(rows) + '\n'
p = os.path.join(VERIF, 'DESIGN.md'); s = open(p).read()
a, b = '<!-- check-table-begin -->\n', '<!-- check-table-end -->\n'
i, j = s.index(a) + len(a), s.index(b)
open(p, 'w').write(s[:i] + tbl + s[j:])
print('table of %d checks written' % len(rows))
