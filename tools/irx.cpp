// irx: load LLVM IR produced by clang -O0 from wrapper TUs, normalise it (strip noinline,
// resolve ctor aliases, inline everything but an opaque list, unroll constant-trip loops)
// and serialise selected functions as JSON for the Python value-graph engine.
//
// usage: irx <in.bc|ll> <out.json> [--opaque sub1,sub2,...] [--prefix w_,ref_] [--no-opt]
//            [--dump-ll out.ll] [--globals]
#include "llvm/IR/LLVMContext.h"
#include "llvm/IR/Module.h"
#include "llvm/IR/Function.h"
#include "llvm/IR/Instructions.h"
#include "llvm/IR/IntrinsicInst.h"
#include "llvm/IR/Constants.h"
#include "llvm/IR/DebugInfoMetadata.h"
#include "llvm/IR/GetElementPtrTypeIterator.h"
#include "llvm/IR/Operator.h"
#include "llvm/IR/CFG.h"
#include "llvm/IR/Verifier.h"
#include "llvm/IRReader/IRReader.h"
#include "llvm/Passes/PassBuilder.h"
#include "llvm/Support/SourceMgr.h"
#include "llvm/Support/CommandLine.h"
#include "llvm/Support/raw_ostream.h"
#include "llvm/Support/FileSystem.h"
#include "llvm/ADT/SCCIterator.h"
#include <map>
#include <set>
#include <string>
#include <vector>
#include <sstream>

using namespace llvm;

static std::string jesc(StringRef s) {
  std::string o;
  for (unsigned char c : s) {
    if (c == '"' || c == '\\') { o += '\\'; o += c; }
    else if (c < 0x20 || c >= 0x7f) { char b[8]; snprintf(b, sizeof b, "\\u%04x", c); o += b; }
    else o += c;
  }
  return o;
}
static std::string tstr(Type *t) { std::string s; raw_string_ostream os(s); t->print(os); return jesc(os.str()); }

struct Dumper {
  const DataLayout &DL;
  std::map<const Value *, unsigned> ids;
  std::set<const GlobalVariable *> usedGlobals;
  raw_ostream &os;
  Dumper(const DataLayout &dl, raw_ostream &o) : DL(dl), os(o) {}

  void constant(const Constant *c) {
    if (auto *ci = dyn_cast<ConstantInt>(c)) {
      SmallString<40> s; ci->getValue().toStringUnsigned(s);
      os << "{\"k\":\"ci\",\"w\":" << ci->getBitWidth() << ",\"v\":\"" << s << "\"}";
    } else if (auto *cf = dyn_cast<ConstantFP>(c)) {
      SmallString<40> s; cf->getValueAPF().bitcastToAPInt().toStringUnsigned(s);
      os << "{\"k\":\"cf\",\"t\":\"" << tstr(c->getType()) << "\",\"bits\":\"" << s << "\"}";
    } else if (isa<ConstantPointerNull>(c)) {
      os << "{\"k\":\"null\"}";
    } else if (isa<UndefValue>(c)) {
      os << "{\"k\":\"undef\",\"t\":\"" << tstr(c->getType()) << "\"}";
    } else if (auto *gv = dyn_cast<GlobalVariable>(c)) {
      usedGlobals.insert(gv);
      os << "{\"k\":\"g\",\"name\":\"" << jesc(gv->getName()) << "\"}";
    } else if (auto *f = dyn_cast<Function>(c)) {
      os << "{\"k\":\"fn\",\"name\":\"" << jesc(f->getName()) << "\"}";
    } else if (auto *ce = dyn_cast<ConstantExpr>(c)) {
      if (ce->getOpcode() == Instruction::GetElementPtr) {
        APInt off(DL.getIndexSizeInBits(0), 0);
        auto *gep = cast<GEPOperator>(ce);
        if (gep->accumulateConstantOffset(DL, off)) {
          os << "{\"k\":\"cgep\",\"off\":" << off.getSExtValue() << ",\"base\":";
          constant(cast<Constant>(gep->getPointerOperand()));
          os << "}";
          return;
        }
      }
      if (ce->getOpcode() == Instruction::BitCast || ce->getOpcode() == Instruction::AddrSpaceCast) {
        constant(ce->getOperand(0));
        return;
      }
      os << "{\"k\":\"cexpr\",\"op\":\"" << ce->getOpcodeName() << "\",\"ops\":[";
      for (unsigned i = 0; i < ce->getNumOperands(); i++) { if (i) os << ","; constant(ce->getOperand(i)); }
      os << "]}";
    } else if (isa<ConstantAggregateZero>(c)) {
      os << "{\"k\":\"zero\",\"t\":\"" << tstr(c->getType()) << "\",\"size\":" << DL.getTypeAllocSize(c->getType()) << "}";
    } else if (auto *cds = dyn_cast<ConstantDataSequential>(c)) {
      os << "{\"k\":\"cseq\",\"t\":\"" << tstr(c->getType()) << "\",\"esize\":" << DL.getTypeAllocSize(cds->getElementType()) << ",\"elems\":[";
      for (unsigned i = 0; i < cds->getNumElements(); i++) { if (i) os << ","; constant(cds->getElementAsConstant(i)); }
      os << "]}";
    } else if (auto *ca = dyn_cast<ConstantAggregate>(c)) {
      os << "{\"k\":\"cagg\",\"t\":\"" << tstr(c->getType()) << "\",\"offs\":[";
      Type *ty = c->getType();
      for (unsigned i = 0; i < ca->getNumOperands(); i++) {
        if (i) os << ",";
        uint64_t off = 0;
        if (auto *st = dyn_cast<StructType>(ty)) off = DL.getStructLayout(st)->getElementOffset(i);
        else if (auto *at = dyn_cast<ArrayType>(ty)) off = i * DL.getTypeAllocSize(at->getElementType());
        else if (auto *vt = dyn_cast<FixedVectorType>(ty)) off = i * DL.getTypeAllocSize(vt->getElementType());
        os << off;
      }
      os << "],\"elems\":[";
      for (unsigned i = 0; i < ca->getNumOperands(); i++) { if (i) os << ","; constant(ca->getOperand(i)); }
      os << "]}";
    } else if (auto *ga = dyn_cast<GlobalAlias>(c)) {
      constant(ga->getAliasee());
    } else {
      os << "{\"k\":\"unk\",\"t\":\"" << tstr(c->getType()) << "\"}";
    }
  }

  void operand(const Value *v) {
    if (auto *c = dyn_cast<Constant>(v)) { constant(c); return; }
    if (auto *a = dyn_cast<Argument>(v)) { os << "{\"k\":\"a\",\"i\":" << a->getArgNo() << "}"; return; }
    if (auto *bb = dyn_cast<BasicBlock>(v)) { os << "{\"k\":\"bb\",\"id\":" << ids[bb] << "}"; return; }
    if (isa<Instruction>(v)) { os << "{\"k\":\"v\",\"id\":" << ids[v] << "}"; return; }
    if (isa<MetadataAsValue>(v)) { os << "{\"k\":\"md\"}"; return; }
    if (isa<InlineAsm>(v)) { os << "{\"k\":\"asm\"}"; return; }
    os << "{\"k\":\"unk\"}";
  }

  static bool hasCycle(const Function &F) {
    for (scc_iterator<const Function *> I = scc_begin(&F); !I.isAtEnd(); ++I)
      if (I.hasCycle()) return true;
    return false;
  }

  void function(const Function &F) {
    ids.clear();
    unsigned n = 0;
    for (auto &BB : F) { ids[&BB] = n++; }
    for (auto &BB : F) for (auto &I : BB) ids[&I] = n++;
    os << "{\"name\":\"" << jesc(F.getName()) << "\",\"ret\":\"" << tstr(F.getReturnType()) << "\",\"cyclic\":" << (hasCycle(F) ? "true" : "false") << ",\"args\":[";
    for (auto &A : F.args()) {
      if (A.getArgNo()) os << ",";
      os << "{\"name\":\"" << jesc(A.getName()) << "\",\"t\":\"" << tstr(A.getType()) << "\"";
      if (A.hasStructRetAttr()) os << ",\"sret\":true";
      if (A.hasByValAttr()) os << ",\"byval\":" << DL.getTypeAllocSize(A.getParamByValType());
      os << "}";
    }
    os << "],\"direct\":[";
    {
      // subprograms inlined directly into this function (outermost inlinedAt level): the
      // functions the wrapper body calls; used to report file:line of the analysed construct
      std::set<std::string> seen; bool fd = true;
      for (auto &BB : F) for (auto &I : BB) {
        const DebugLoc &dl = I.getDebugLoc();
        if (!dl) continue;
        const DILocation *loc = dl.get();
        const DILocation *prev = nullptr;
        while (loc->getInlinedAt()) { prev = loc; loc = loc->getInlinedAt(); }
        if (!prev) continue;
        auto *ls = dyn_cast_or_null<DILocalScope>(prev->getScope());
        if (!ls) continue;
        auto *sp = ls->getSubprogram();
        if (!sp) continue;
        std::string key = (sp->getFilename() + ":" + Twine(sp->getLine()) + ":" + sp->getName()).str();
        if (!seen.insert(key).second) continue;
        if (!fd) os << ",";
        fd = false;
        os << "{\"name\":\"" << jesc(sp->getName()) << "\",\"file\":\"" << jesc(sp->getFilename()) << "\",\"line\":" << sp->getLine() << "}";
      }
    }
    os << "],\"blocks\":[";
    bool firstb = true;
    for (auto &BB : F) {
      if (!firstb) os << ",";
      firstb = false;
      os << "{\"id\":" << ids[&BB] << ",\"preds\":[";
      bool fp = true;
      for (auto *P : predecessors(&BB)) { if (!fp) os << ","; fp = false; os << ids[P]; }
      os << "],\"insts\":[";
      bool firsti = true;
      for (auto &I : BB) {
        if (isa<DbgInfoIntrinsic>(&I)) continue;
        if (!firsti) os << ",";
        firsti = false;
        inst(I);
      }
      os << "]}";
    }
    os << "]}";
  }

  void inst(const Instruction &I) {
    os << "{\"id\":" << ids[&I] << ",\"op\":\"" << I.getOpcodeName() << "\",\"t\":\"" << tstr(I.getType()) << "\"";
    if (!I.getType()->isVoidTy() && I.getType()->isSized())
      os << ",\"bits\":" << DL.getTypeSizeInBits(I.getType()).getFixedSize();
    if (const DebugLoc &dl = I.getDebugLoc()) {
      os << ",\"line\":" << dl.getLine();
      if (auto *sc = dyn_cast_or_null<DIScope>(dl.getScope())) os << ",\"file\":\"" << jesc(sc->getFilename()) << "\"";
      if (auto *sp = dyn_cast_or_null<DILocalScope>(dl.getScope())) if (auto *sub = sp->getSubprogram()) os << ",\"fn\":\"" << jesc(sub->getName()) << "\"";
    }
    if (auto *fpo = dyn_cast<FPMathOperator>(&I)) {
      FastMathFlags f = fpo->getFastMathFlags();
      if (f.any()) os << ",\"fmf\":true";
    }
    if (auto *cmp = dyn_cast<CmpInst>(&I)) os << ",\"pred\":\"" << CmpInst::getPredicateName(cmp->getPredicate()) << "\"";
    if (auto *ai = dyn_cast<AllocaInst>(&I)) {
      os << ",\"size\":" << DL.getTypeAllocSize(ai->getAllocatedType()) << ",\"at\":\"" << tstr(ai->getAllocatedType()) << "\"";
    }
    if (auto *ld = dyn_cast<LoadInst>(&I)) os << ",\"size\":" << DL.getTypeStoreSize(ld->getType()) << (ld->isVolatile() ? ",\"volatile\":true" : "");
    if (auto *st = dyn_cast<StoreInst>(&I)) os << ",\"size\":" << DL.getTypeStoreSize(st->getValueOperand()->getType()) << ",\"vt\":\"" << tstr(st->getValueOperand()->getType()) << "\"";
    if (auto *gep = dyn_cast<GetElementPtrInst>(&I)) {
      // decompose into constant offset + sum stride*index
      int64_t coff = 0;
      os << ",\"gep\":[";
      bool first = true;
      for (gep_type_iterator GTI = gep_type_begin(gep), E = gep_type_end(gep); GTI != E; ++GTI) {
        Value *idx = GTI.getOperand();
        if (StructType *STy = GTI.getStructTypeOrNull()) {
          coff += DL.getStructLayout(STy)->getElementOffset(cast<ConstantInt>(idx)->getZExtValue());
          continue;
        }
        uint64_t stride = DL.getTypeAllocSize(GTI.getIndexedType());
        if (auto *ci = dyn_cast<ConstantInt>(idx)) { coff += (int64_t) stride * ci->getSExtValue(); continue; }
        if (!first) os << ",";
        first = false;
        os << "{\"stride\":" << stride << ",\"idx\":";
        operand(idx);
        os << "}";
      }
      os << "],\"off\":" << coff;
    }
    if (auto *cb = dyn_cast<CallBase>(&I)) {
      if (auto *cf = cb->getCalledFunction()) {
        os << ",\"callee\":\"" << jesc(cf->getName()) << "\"";
        if (cf->isIntrinsic()) os << ",\"intrinsic\":true";
        if (cf->doesNotReturn() || cb->doesNotReturn()) os << ",\"noreturn\":true";
        if (cf->isDeclaration()) os << ",\"decl\":true";
      } else os << ",\"callee\":null";
      os << ",\"nargs\":" << cb->arg_size();
      os << ",\"ro\":[";
      for (unsigned i = 0; i < cb->arg_size(); i++) {
        if (i) os << ",";
        bool ro = cb->onlyReadsMemory(i) || cb->onlyReadsMemory();
        os << (ro ? "true" : "false");
      }
      os << "]";
    }
    if (auto *ev = dyn_cast<ExtractValueInst>(&I)) { os << ",\"idxs\":["; bool f = true; for (unsigned i : ev->indices()) { if (!f) os << ","; f = false; os << i; } os << "]"; }
    if (auto *iv = dyn_cast<InsertValueInst>(&I)) { os << ",\"idxs\":["; bool f = true; for (unsigned i : iv->indices()) { if (!f) os << ","; f = false; os << i; } os << "]"; }
    if (auto *sv = dyn_cast<ShuffleVectorInst>(&I)) { os << ",\"mask\":["; bool f = true; for (int i : sv->getShuffleMask()) { if (!f) os << ","; f = false; os << i; } os << "]"; }
    if (auto *c = dyn_cast<CastInst>(&I)) os << ",\"st\":\"" << tstr(c->getSrcTy()) << "\",\"sbits\":" << (c->getSrcTy()->isSized() ? DL.getTypeSizeInBits(c->getSrcTy()).getFixedSize() : 0);
    os << ",\"ops\":[";
    if (auto *phi = dyn_cast<PHINode>(&I)) {
      for (unsigned i = 0; i < phi->getNumIncomingValues(); i++) {
        if (i) os << ",";
        os << "[";
        operand(phi->getIncomingValue(i));
        os << "," << ids[phi->getIncomingBlock(i)] << "]";
      }
    } else if (auto *cb = dyn_cast<CallBase>(&I)) {
      for (unsigned i = 0; i < cb->arg_size(); i++) { if (i) os << ","; operand(cb->getArgOperand(i)); }
      if (auto *inv = dyn_cast<InvokeInst>(&I)) os << "],\"normal\":" << ids[inv->getNormalDest()] << ",\"unwind\":" << ids[inv->getUnwindDest()] << ",\"_\":[";
    } else if (auto *sw = dyn_cast<SwitchInst>(&I)) {
      operand(sw->getCondition());
      os << "],\"default\":" << ids[sw->getDefaultDest()] << ",\"cases\":[";
      bool f = true;
      for (auto &c : sw->cases()) {
        if (!f) os << ",";
        f = false;
        SmallString<40> s; c.getCaseValue()->getValue().toStringUnsigned(s);
        os << "[\"" << s << "\"," << ids[c.getCaseSuccessor()] << "]";
      }
    } else {
      for (unsigned i = 0; i < I.getNumOperands(); i++) { if (i) os << ","; operand(I.getOperand(i)); }
    }
    os << "]}";
  }

  void global(const GlobalVariable *gv) {
    os << "{\"name\":\"" << jesc(gv->getName()) << "\",\"const\":" << (gv->isConstant() ? "true" : "false")
       << ",\"t\":\"" << tstr(gv->getValueType()) << "\",\"size\":" << (gv->getValueType()->isSized() ? (uint64_t) DL.getTypeAllocSize(gv->getValueType()) : 0);
    if (gv->hasInitializer()) { os << ",\"init\":"; constant(gv->getInitializer()); }
    os << "}";
  }
};

static std::vector<std::string> split(const std::string &s) {
  std::vector<std::string> r; std::stringstream ss(s); std::string x;
  while (std::getline(ss, x, ',')) if (!x.empty()) r.push_back(x);
  return r;
}

int main(int argc, char **argv) {
  if (argc < 3) { errs() << "usage: irx in out.json [--opaque a,b] [--prefix w_,ref_] [--no-opt] [--dump-ll f] [--all-globals]\n"; return 2; }
  std::string in = argv[1], out = argv[2], dumpll;
  std::vector<std::string> opaque, prefixes = {"w_", "ref_"};
  bool noopt = false, allGlobals = false, noUnroll = false;
  for (int i = 3; i < argc; i++) {
    std::string a = argv[i];
    if (a == "--opaque" && i + 1 < argc) opaque = split(argv[++i]);
    else if (a == "--prefix" && i + 1 < argc) prefixes = split(argv[++i]);
    else if (a == "--no-opt") noopt = true;
    else if (a == "--all-globals") allGlobals = true;
    else if (a == "--no-unroll") noUnroll = true;
    else if (a == "--dump-ll" && i + 1 < argc) dumpll = argv[++i];
    else { errs() << "irx: bad arg " << a << "\n"; return 2; }
  }
  const char *clargs[] = {"irx", "-inline-threshold=100000000", "-unroll-threshold=100000000", "-unroll-max-iteration-count-to-analyze=100000", "-unroll-full-max-count=100000", "-unroll-max-count=100000", "-unroll-partial-threshold=100000000"};
  cl::ParseCommandLineOptions(sizeof(clargs) / sizeof(clargs[0]), clargs);

  LLVMContext ctx;
  SMDiagnostic err;
  std::unique_ptr<Module> M = parseIRFile(in, err, ctx);
  if (!M) { err.print("irx", errs()); return 2; }

  auto isOpaque = [&](StringRef name) {
    for (auto &o : opaque) if (name.contains(o)) return true;
    return false;
  };
  auto wanted = [&](StringRef name) {
    for (auto &p : prefixes) if (name.startswith(p)) return true;
    return false;
  };

  // 1. resolve aliases (C1 -> C2 constructor aliases) so constructors can inline
  std::vector<GlobalAlias *> aliases;
  for (auto &A : M->aliases()) aliases.push_back(&A);
  for (auto *A : aliases) { A->replaceAllUsesWith(A->getAliasee()); A->eraseFromParent(); }
  // 1b. drop the bodies of functions that no analysed wrapper can reach (iostream machinery,
  //     main() of included programs ...): they would only cost optimisation time
  {
    std::set<Function *> reach;
    std::vector<Function *> work;
    for (auto &F : *M) if (!F.isDeclaration() && (wanted(F.getName()) || isOpaque(F.getName()))) { reach.insert(&F); work.push_back(&F); }
    while (!work.empty()) {
      Function *F = work.back(); work.pop_back();
      for (auto &BB : *F) for (auto &I : BB) for (auto &Op : I.operands()) {
        Value *v = Op.get()->stripPointerCasts();
        if (auto *G = dyn_cast<Function>(v)) if (!G->isDeclaration() && reach.insert(G).second) work.push_back(G);
        if (auto *GV = dyn_cast<GlobalVariable>(v)) if (GV->hasInitializer()) {
          // functions referenced from initialisers (vtables): keep them
          std::vector<Constant *> cs{GV->getInitializer()}; std::set<Constant *> seenc;
          while (!cs.empty()) { Constant *c = cs.back(); cs.pop_back(); if (!seenc.insert(c).second) continue;
            if (auto *G2 = dyn_cast<Function>(c->stripPointerCasts())) { if (!G2->isDeclaration() && reach.insert(G2).second) work.push_back(G2); continue; }
            if (isa<GlobalVariable>(c) && c != GV) continue;
            for (auto &o : c->operands()) if (auto *oc = dyn_cast<Constant>(o.get())) cs.push_back(oc); }
        }
      }
    }
    if (!allGlobals || true)
      for (auto &F : *M) if (!F.isDeclaration() && !reach.count(&F)) { F.deleteBody(); F.setComdat(nullptr); }
  }
  // 2. inlining attributes
  for (auto &F : *M) {
    if (F.isDeclaration()) continue;
    F.removeFnAttr(Attribute::OptimizeNone);
    if (isOpaque(F.getName())) { F.addFnAttr(Attribute::NoInline); continue; }
    F.removeFnAttr(Attribute::NoInline);
    if (!wanted(F.getName())) F.addFnAttr(Attribute::AlwaysInline);
  }
  // exact definitions: linkonce_odr bodies are not trusted by attribute inference; this module is
  // analysed in isolation, so every non-wrapper definition is made internal
  for (auto &F : *M) {
    if (F.isDeclaration() || wanted(F.getName())) continue;
    F.setComdat(nullptr);
    F.setLinkage(GlobalValue::InternalLinkage);
    F.setVisibility(GlobalValue::DefaultVisibility);
    F.setDSOLocal(true);
  }
  if (!noopt) {
    LoopAnalysisManager LAM; FunctionAnalysisManager FAM; CGSCCAnalysisManager CGAM; ModuleAnalysisManager MAM;
    PassBuilder PB;
    PB.registerModuleAnalyses(MAM); PB.registerCGSCCAnalyses(CGAM); PB.registerFunctionAnalyses(FAM); PB.registerLoopAnalyses(LAM);
    PB.crossRegisterProxies(LAM, FAM, CGAM, MAM);
    ModulePassManager MPM;
    std::string U = "function(loop-simplify,lcssa,loop-rotate,indvars,loop-unroll<O3>,sroa,early-cse,instcombine,simplifycfg)";
    std::string pipe = "function(sroa,early-cse,simplifycfg),always-inline,cgscc(inline),function(sroa,early-cse,instcombine,simplifycfg)," + U + "," + U + "," + U + "," + U + ",function(sroa,early-cse,instcombine,simplifycfg,adce),cgscc(function-attrs),rpo-function-attrs";
    if (noUnroll) pipe = "function(sroa,early-cse,simplifycfg),always-inline,cgscc(inline),function(sroa,early-cse,instcombine,simplifycfg),function(sroa,early-cse,instcombine,simplifycfg,adce)";
    if (auto e = PB.parsePassPipeline(MPM, pipe)) { errs() << "irx: pipeline: " << toString(std::move(e)) << "\n"; return 2; }
    MPM.run(*M, MAM);
  }
  if (verifyModule(*M, &errs())) { errs() << "irx: module broken\n"; return 2; }
  if (!dumpll.empty()) { std::error_code ec; raw_fd_ostream f(dumpll, ec); M->print(f, nullptr); }

  std::error_code ec;
  raw_fd_ostream os(out, ec);
  if (ec) { errs() << "irx: cannot write " << out << "\n"; return 2; }
  Dumper D(M->getDataLayout(), os);
  os << "{\"functions\":[";
  bool first = true;
  unsigned fmf = 0;
  for (auto &F : *M) {
    if (F.isDeclaration() || !(wanted(F.getName()) || isOpaque(F.getName()))) continue;
    if (!first) os << ",\n";
    first = false;
    D.function(F);
  }
  os << "],\n\"globals\":[";
  first = true;
  if (allGlobals) for (auto &G : M->globals()) D.usedGlobals.insert(&G);
  // closure: initialisers may reference other globals
  std::set<const GlobalVariable *> done;
  while (true) {
    const GlobalVariable *next = nullptr;
    for (auto *g : D.usedGlobals) if (!done.count(g)) { next = g; break; }
    if (!next) break;
    done.insert(next);
    if (!first) os << ",\n";
    first = false;
    D.global(next);
  }
  os << "]}\n";
  (void) fmf;
  return 0;
}
