#!/usr/bin/env python3
"""regenerate /verif/MANIFEST.json from the table below (kept in one place so it stays valid)"""
import json, os, sys
VERIF = os.path.dirname(os.path.dirname(os.path.abspath(__file__)))
sys.path.insert(0, VERIF)
from manifest_table import CHECKS, PENDING_REASON, NA

props = [json.loads(l) for l in open(os.path.join(VERIF, 'properties.jsonl'))]
checks = []
for pid, c in CHECKS.items():
    checks.append({
        'property_id': pid,
        'quick_cmd': './check %s --tier quick' % pid,
        'thorough_cmd': './check %s --tier thorough' % pid,
        'evidence_file': 'evidence/%s.json' % pid,
        'replay_cmd_template': './check %s --replay {path}' % pid,
        'engine': c['engine'],
        'level_claimed': {'category': c['level'], 'text': c['text'], 'design_ref': 'DESIGN.md section 4, %s' % pid},
        'level_note': c['note'],
        'technique': c['technique'],
    })
na = []
for p in props:
    if p['id'] not in CHECKS:
        na.append({'property_id': p['id'], 'reason': NA.get(p['id'], PENDING_REASON)})
m = {
    'version': 1,
    'setup_cmd': './setup.sh',
    'hooks': {
        'guard': 'IMATH_VERIF_HOOKS',
        'enable': 'n/a - the analyses read the unmodified sources; no hook commits exist',
        'baseline_off_cmd': 'rm -rf /var/tmp/imath_baseline_build && cmake -G Ninja -S /repo -B /var/tmp/imath_baseline_build >/dev/null && cmake --build /var/tmp/imath_baseline_build -j16 >/dev/null && ctest --test-dir /var/tmp/imath_baseline_build -j8 --timeout 900; rc=$?; rm -rf /var/tmp/imath_baseline_build; exit $rc',
        'source_commits': [],
        'add_only': True,
    },
    'engines': [
        {'name': 'irx', 'path': 'tools/irx.cpp', 'serves_properties': sorted(CHECKS), 'kind_free_text': 'LLVM-14 C++ tool: clang -O0 IR of wrapper TUs -> inline/unroll normalisation -> JSON'},
        {'name': 'vgraph', 'path': 'engine/vg.py', 'serves_properties': sorted(CHECKS), 'kind_free_text': 'abstract interpretation of acyclic IR into hash-consed gated terms (value graph)'},
        {'name': 'domains', 'path': 'engine/term.py engine/poly.py', 'serves_properties': sorted(CHECKS), 'kind_free_text': 'D-term (IEEE-exact normal forms), D-poly (rational-function normal forms), D-bits, D-ord'},
        {'name': 'pyrules', 'path': 'tools/pyrules.cpp', 'serves_properties': ['C19', 'C20'], 'kind_free_text': 'libTooling AST/CFG/call-graph rules over src/python/PyImath'},
    ],
    'checks': checks,
    'notes': 'Static analysis only: every check rebuilds clang AST / LLVM IR from /repo\'s working tree and never executes Imath code. exit 2 = ANALYSIS-INCOMPLETE (anchor vanished / instance floor / obligation became undecidable), never reported as pass or violation. known_findings.json lists recorded and fixed defects.',
    'not_applicable': na,
}
json.dump(m, open(os.path.join(VERIF, 'MANIFEST.json'), 'w'), indent=1)
print('MANIFEST.json: %d checks, %d not_applicable' % (len(checks), len(na)))
