// pyrules: fact extractor over the type-checked PyImath translation units (clang 14 libTooling).
//
// For every function *definition that the compiler actually instantiates or compiles* and that lives
// under the directories given with -dir, it emits (JSON, one file per TU):
//   - the CFG skeleton (blocks, successors in [true,false] order, the atomic branch condition as
//     normalised source text + polarity, how a block leaves the function: return / throw / noreturn)
//   - events, each tagged with its CFG block: calls (resolved callee, receiver, arguments), throws,
//     constructions of the array families, writes to fields, discarded exception temporaries,
//     and *storage uses*: every expression  X._ptr[...]  (and every call of the methods named with
//     -escape) together with the classification of what is finally done with that lvalue
//     (read / write / escape into a non-const parameter or return), followed through local
//     reference aliases, element fields, operator[] and pointer arithmetic
//   - boost::python def()/add_property() bindings: python name, bound C++ functions, call policies
//   - loops of Task::execute overrides
// Graph algorithms (guarded reachability, dominance, call-graph closures) and all rule decisions
// are done by checks/c19.py and checks/c20.py on these facts.
#include "clang/AST/ASTConsumer.h"
#include "clang/AST/ParentMap.h"
#include "clang/AST/RecursiveASTVisitor.h"
#include "clang/Analysis/CFG.h"
#include "clang/Frontend/CompilerInstance.h"
#include "clang/Frontend/FrontendAction.h"
#include "clang/Lex/Lexer.h"
#include "clang/Tooling/CommonOptionsParser.h"
#include "clang/Tooling/Tooling.h"
#include "llvm/Support/CommandLine.h"
#include "llvm/Support/JSON.h"
#include <map>
#include <set>

using namespace clang;
using namespace llvm;

static cl::OptionCategory Cat("pyrules");
static cl::opt<std::string> OptDirs("dir", cl::desc("comma separated path substrings of files to analyse"), cl::cat(Cat));
static cl::opt<std::string> OptOut("out", cl::desc("output json"), cl::cat(Cat));
static cl::opt<std::string> OptEscape("escape", cl::desc("method names whose result is a storage lvalue"), cl::init("unchecked_index,unchecked_direct_index"), cl::cat(Cat));
static cl::opt<std::string> OptRoot("root", cl::desc("path prefix stripped from file names"), cl::init("/repo/"), cl::cat(Cat));
static cl::opt<unsigned> OptMaxInst("max-inst", cl::desc("instantiations analysed per template pattern"), cl::init(2), cl::cat(Cat));

static StringRef nm(const NamedDecl *D) { return (D && D->getDeclName().isIdentifier()) ? D->getName() : StringRef(); }
static std::vector<std::string> splitc(const std::string &s) {
  std::vector<std::string> r; std::string cur;
  for (char c : s) { if (c == ',') { if (!cur.empty()) r.push_back(cur); cur.clear(); } else cur += c; }
  if (!cur.empty()) r.push_back(cur);
  return r;
}

namespace {

struct Use { std::string kind, how, loc, callee, calleeKey; int block = -1; int argi = -1; std::vector<std::string> args; };

class FnAnalyser {
public:
  ASTContext &Ctx; SourceManager &SM; const LangOptions &LO;
  std::set<std::string> Escape;
  FnAnalyser(ASTContext &C) : Ctx(C), SM(C.getSourceManager()), LO(C.getLangOpts()) { for (auto &s : splitc(OptEscape)) Escape.insert(s); }

  std::string relfile(StringRef f) { std::string s = f.str(); if (s.rfind(OptRoot, 0) == 0) s = s.substr(OptRoot.size()); return s; }
  std::string locstr(SourceLocation L) {
    if (L.isInvalid()) return "";
    PresumedLoc P = SM.getPresumedLoc(SM.getExpansionLoc(L));
    if (P.isInvalid()) return "";
    return relfile(P.getFilename()) + ":" + std::to_string(P.getLine()) + ":" + std::to_string(P.getColumn());
  }
  std::string norm(StringRef t) {
    std::string r; bool sp = false;
    for (char c : t) { if (c == ' ' || c == '\n' || c == '\t' || c == '\r') { sp = true; continue; } if (sp && !r.empty()) { char p = r.back(); if ((isalnum(p) || p == '_') && (isalnum(c) || c == '_')) r += ' '; } sp = false; r += c; }
    if (r.size() > 400) r = r.substr(0, 400) + "...";
    return r;
  }
  // canonical structure of a small statement / expression: operators by opcode, parameters by position, callees by name;
  // parentheses, implicit casts, temporaries and elidable copies are transparent
  std::map<const VarDecl *, std::string> Induct;
  std::string shape(const Stmt *S, const FunctionDecl *F, int depth) {
    if (!S) return "?null";
    if (depth > 12) return "?deep";
    if (auto *R = dyn_cast<ReturnStmt>(S)) return "R(" + (R->getRetValue() ? shape(R->getRetValue(), F, depth + 1) : std::string()) + ")";
    if (auto *L = dyn_cast<ForStmt>(S)) {
      // an element loop: the induction variable is named by its nesting level, the body is listed statement by statement
      const VarDecl *IV = nullptr;
      if (auto *DS = dyn_cast_or_null<DeclStmt>(L->getInit())) if (DS->isSingleDecl()) IV = dyn_cast<VarDecl>(DS->getSingleDecl());
      std::string nm = "i" + std::to_string(Induct.size());
      if (IV) Induct[IV] = nm;
      std::string r = "L(" + nm + "," + shape(L->getBody(), F, depth + 1) + ")";
      if (IV) Induct.erase(IV);
      return r;
    }
    if (auto *IS = dyn_cast<IfStmt>(S)) {
      std::string r = "I(" + shape(IS->getCond(), F, depth + 1) + "," + shape(IS->getThen(), F, depth + 1);
      if (IS->getElse()) r += "," + shape(IS->getElse(), F, depth + 1);
      return r + ")";
    }
    if (auto *DS = dyn_cast<DeclStmt>(S)) {
      std::string r = "V(";
      bool first = true;
      for (auto *D : DS->decls()) if (auto *VD = dyn_cast<VarDecl>(D)) { if (!first) r += ","; first = false; r += VD->getNameAsString(); }
      return r + ")";
    }
    if (auto *C = dyn_cast<CompoundStmt>(S)) {
      std::string r = "{"; bool first = true;
      for (auto *X : C->body()) { if (isa<NullStmt>(X)) continue; if (!first) r += ";"; first = false; r += shape(X, F, depth + 1); }
      return r + "}";
    }
    if (auto *E = dyn_cast<Expr>(S)) {
      const Expr *X = E->IgnoreParenImpCasts();
      if (auto *C = dyn_cast<ExprWithCleanups>(X)) return shape(C->getSubExpr(), F, depth + 1);
      if (auto *C = dyn_cast<MaterializeTemporaryExpr>(X)) return shape(C->getSubExpr(), F, depth + 1);
      if (auto *C = dyn_cast<CXXBindTemporaryExpr>(X)) return shape(C->getSubExpr(), F, depth + 1);
      if (auto *C = dyn_cast<CXXFunctionalCastExpr>(X)) return "K(" + C->getType().getUnqualifiedType().getAsString() + "," + shape(C->getSubExpr(), F, depth + 1) + ")";
      if (auto *C = dyn_cast<CXXConstructExpr>(X)) {
        if (C->getNumArgs() == 1 && C->getConstructor()->isCopyOrMoveConstructor()) return shape(C->getArg(0), F, depth + 1);
        std::string r = "K(" + C->getType().getUnqualifiedType().getAsString();
        for (auto *A : C->arguments()) r += "," + shape(A, F, depth + 1);
        return r + ")";
      }
      if (auto *D = dyn_cast<DeclRefExpr>(X)) {
        if (auto *PV = dyn_cast<ParmVarDecl>(D->getDecl())) return "P" + std::to_string(PV->getFunctionScopeIndex());
        if (auto *VD = dyn_cast<VarDecl>(D->getDecl())) { auto it = Induct.find(VD); if (it != Induct.end()) return it->second; }
        return "D(" + D->getDecl()->getNameAsString() + ")";
      }
      if (auto *B = dyn_cast<BinaryOperator>(X)) return "B(" + B->getOpcodeStr().str() + "," + shape(B->getLHS(), F, depth + 1) + "," + shape(B->getRHS(), F, depth + 1) + ")";
      if (auto *U = dyn_cast<UnaryOperator>(X)) return "U(" + UnaryOperator::getOpcodeStr(U->getOpcode()).str() + "," + shape(U->getSubExpr(), F, depth + 1) + ")";
      if (auto *O = dyn_cast<CXXOperatorCallExpr>(X)) {
        std::string op = getOperatorSpelling(O->getOperator());
        std::string r = (O->getNumArgs() == 1 ? "U(" : "B(") + op;
        for (auto *A : O->arguments()) r += "," + shape(A, F, depth + 1);
        return r + ")";
      }
      if (auto *M = dyn_cast<CXXMemberCallExpr>(X)) {
        std::string r = "M(" + (M->getMethodDecl() ? M->getMethodDecl()->getNameAsString() : std::string("?")) + "," + shape(M->getImplicitObjectArgument(), F, depth + 1);
        for (auto *A : M->arguments()) if (!isa<CXXDefaultArgExpr>(A)) r += "," + shape(A, F, depth + 1);
        return r + ")";
      }
      if (auto *C = dyn_cast<CallExpr>(X)) {
        std::string r = "C(" + (C->getDirectCallee() ? C->getDirectCallee()->getQualifiedNameAsString() : std::string("?"));
        for (auto *A : C->arguments()) if (!isa<CXXDefaultArgExpr>(A)) r += "," + shape(A, F, depth + 1);
        return r + ")";
      }
      if (auto *L = dyn_cast<IntegerLiteral>(X)) return "I(" + llvm::toString(L->getValue(), 10, true) + ")";
      if (isa<FloatingLiteral>(X)) return "F(" + text(X) + ")";
      if (auto *ME = dyn_cast<MemberExpr>(X)) return "F." + ME->getMemberDecl()->getNameAsString() + "(" + shape(ME->getBase(), F, depth + 1) + ")";
      return std::string("?") + X->getStmtClassName();
    }
    return std::string("?") + S->getStmtClassName();
  }
  std::string text(const Stmt *S) {
    if (!S) return "";
    SourceRange R = S->getSourceRange();
    if (R.isInvalid()) return "";
    CharSourceRange CR = SM.getExpansionRange(R);
    return norm(Lexer::getSourceText(CR, SM, LO));
  }
  std::string fnKey(const FunctionDecl *FD) {
    if (!FD) return "";
    const FunctionDecl *P = FD;
    if (const FunctionDecl *T = FD->getTemplateInstantiationPattern()) P = T;
    const FunctionDecl *Def = nullptr;
    if (P->hasBody(Def) && Def) P = Def;
    return locstr(P->getLocation());
  }
  bool inDirs(SourceLocation L) {
    if (L.isInvalid()) return false;
    StringRef f = SM.getFilename(SM.getExpansionLoc(L));
    for (auto &d : Dirs) if (f.contains(d)) return true;
    return false;
  }
  std::vector<std::string> Dirs;

  // ---- per function state
  bool TaskExecute = false; std::set<const VarDecl *> OuterLocals;
  const FunctionDecl *FD = nullptr; std::unique_ptr<CFG> G; std::unique_ptr<ParentMap> PM;
  std::map<const Stmt *, std::pair<int, int>> BlockOf;       // stmt -> (block id, element index)
  std::map<const VarDecl *, std::vector<const DeclRefExpr *>> Refs;

  std::pair<int, int> blockOf(const Stmt *S) {
    for (int d = 0; S && d < 64; ++d) {
      auto it = BlockOf.find(S);
      if (it != BlockOf.end()) return it->second;
      S = PM->getParent(S);
    }
    return {-1, -1};
  }

  static bool nonConstTarget(QualType T) {
    if (T->isLValueReferenceType()) return !T->getPointeeType().isConstQualified();
    if (T->isPointerType()) return !T->getPointeeType().isConstQualified();
    return false;
  }
  static bool isByRefOrPtr(QualType T) { return T->isReferenceType() || T->isPointerType(); }

  std::string calleeName(const FunctionDecl *F) { return F ? F->getQualifiedNameAsString() : std::string(); }

  // classify what happens to the lvalue / pointer value denoted by E
  void classify(const Expr *E, std::vector<Use> &out, int depth) {
    if (depth > 6) { Use u; u.kind = "unknown"; u.how = "alias depth"; u.loc = locstr(E->getBeginLoc()); auto b = blockOf(E); u.block = b.first; out.push_back(u); return; }
    const Stmt *cur = E;
    for (int guard = 0; guard < 64; ++guard) {
      const Stmt *P = PM->getParent(cur);
      auto mk = [&](const char *kind, std::string how, const Stmt *site) { Use u; u.kind = kind; u.how = how; u.loc = locstr(site->getBeginLoc()); auto b = blockOf(site); u.block = b.first; return u; };
      if (!P) {
        // initialiser of a variable is parented by the DeclStmt; member initialisers have no parent in the body map
        out.push_back(mk("read", "top", cur)); return;
      }
      if (isa<ParenExpr>(P) || isa<ExprWithCleanups>(P) || isa<MaterializeTemporaryExpr>(P) || isa<CXXBindTemporaryExpr>(P) || isa<ConstantExpr>(P)) { cur = P; continue; }
      if (auto *IC = dyn_cast<ImplicitCastExpr>(P)) {
        if (IC->getCastKind() == CK_LValueToRValue) { out.push_back(mk("read", "rvalue", P)); return; }
        if (IC->getCastKind() == CK_NoOp && IC->getType().isConstQualified() && !cast<Expr>(cur)->getType().isConstQualified() && !IC->getType()->isPointerType()) { out.push_back(mk("read", "const", P)); return; }
        if (IC->getCastKind() == CK_NoOp && IC->getType()->isPointerType() && IC->getType()->getPointeeType().isConstQualified()) { out.push_back(mk("read", "const*", P)); return; }
        if (IC->getCastKind() == CK_PointerToBoolean) { out.push_back(mk("read", "bool", P)); return; }
        cur = P; continue;
      }
      if (auto *CE = dyn_cast<ExplicitCastExpr>(P)) {
        QualType T = CE->getTypeAsWritten();
        if ((T->isPointerType() || T->isReferenceType()) && T->getPointeeType().isConstQualified()) { out.push_back(mk("read", "cast-const", P)); return; }
        if (!T->isPointerType() && !T->isReferenceType()) { out.push_back(mk("read", "cast-value", P)); return; }
        cur = P; continue;
      }
      if (auto *BO = dyn_cast<BinaryOperator>(P)) {
        if (BO->isAssignmentOp()) {
          if (BO->getLHS() == cur) { out.push_back(mk("write", "assign", P)); return; }
          // pointer stored somewhere: follow only simple locals
          if (cast<Expr>(cur)->getType()->isPointerType()) { out.push_back(mk(nonConstTarget(BO->getLHS()->getType()) ? "escape" : "read", "stored", P)); return; }
          out.push_back(mk("read", "rhs", P)); return;
        }
        if (BO->isAdditiveOp() && cast<Expr>(cur)->getType()->isPointerType()) { cur = P; continue; }
        if (BO->getOpcode() == BO_Comma && BO->getRHS() == cur) { cur = P; continue; }
        out.push_back(mk("read", "operand", P)); return;
      }
      if (auto *UO = dyn_cast<UnaryOperator>(P)) {
        if (UO->isIncrementDecrementOp()) { out.push_back(mk("write", "incdec", P)); return; }
        if (UO->getOpcode() == UO_AddrOf || UO->getOpcode() == UO_Deref) { cur = P; continue; }
        out.push_back(mk("read", "unary", P)); return;
      }
      if (auto *ME = dyn_cast<MemberExpr>(P)) {
        if (isa<FieldDecl>(ME->getMemberDecl())) { cur = P; continue; }
        if (auto *MD = dyn_cast<CXXMethodDecl>(ME->getMemberDecl())) {
          const Stmt *Call = PM->getParent(P);
          if (MD->isConst()) { out.push_back(mk("read", "const-method:" + MD->getNameAsString(), Call ? Call : P)); return; }
          QualType RT = MD->getReturnType();
          if (Call && nonConstTarget(RT) && isa<CallExpr>(Call) && accessorName(MD->getNameAsString())) { cur = Call; continue; }   // result aliases the element (operator[], getValue(), ...)
          Use u = mk("write", "method:" + MD->getNameAsString(), Call ? Call : P); u.callee = calleeName(MD); out.push_back(u); return;
        }
        out.push_back(mk("read", "member", P)); return;
      }
      if (auto *AS = dyn_cast<ArraySubscriptExpr>(P)) {
        if (AS->getBase()->IgnoreParenImpCasts() == cur || AS->getBase() == cur) { cur = P; continue; }
        out.push_back(mk("read", "index", P)); return;
      }
      if (auto *CO = dyn_cast<ConditionalOperator>(P)) {
        if (CO->getCond() == cur) { out.push_back(mk("read", "cond", P)); return; }
        cur = P; continue;
      }
      if (auto *RS = dyn_cast<ReturnStmt>(P)) {
        QualType RT = FD->getReturnType();
        if (nonConstTarget(RT)) out.push_back(mk("escape", "return", P)); else out.push_back(mk("read", "return", P));
        return;
      }
      if (auto *DS = dyn_cast<DeclStmt>(P)) {
        for (auto *D : DS->decls()) if (auto *VD = dyn_cast<VarDecl>(D)) if (VD->getInit() && (VD->getInit() == cur || VD->getInit()->IgnoreImplicit() == cur || containsExpr(VD->getInit(), cur))) {
          QualType T = VD->getType();
          if (nonConstTarget(T)) {
            bool any = false;
            for (auto *R : Refs[VD]) { any = true; classify(R, out, depth + 1); }
            if (!any) out.push_back(mk("read", "unused-alias", P));
          } else out.push_back(mk("read", T->isReferenceType() || T->isPointerType() ? "const-alias" : "copy", P));
          return;
        }
        out.push_back(mk("read", "decl", P)); return;
      }
      // calls and constructions: which parameter does it bind to?
      const FunctionDecl *Callee = nullptr; int argi = -1; unsigned nargs = 0; const Expr *const *argv = nullptr; bool objArg = false;
      if (auto *OC = dyn_cast<CXXOperatorCallExpr>(P)) {
        Callee = OC->getDirectCallee(); nargs = OC->getNumArgs(); argv = OC->getArgs();
        for (unsigned i = 0; i < nargs; ++i) if (argv[i] == cur) argi = i;
        if (Callee && isa<CXXMethodDecl>(Callee) && argi == 0) {
          auto *MD = cast<CXXMethodDecl>(Callee);
          if (MD->isConst()) { out.push_back(mk("read", "const-op:" + MD->getNameAsString(), P)); return; }
          if (nonConstTarget(MD->getReturnType()) && (OC->getOperator() == OO_Subscript || OC->getOperator() == OO_Call || OC->getOperator() == OO_Star || OC->getOperator() == OO_Arrow)) { cur = P; continue; }
          Use u = mk("write", "op:" + MD->getNameAsString(), P); u.callee = calleeName(MD); out.push_back(u); return;
        }
        if (Callee && isa<CXXMethodDecl>(Callee)) { objArg = true; }
      } else if (auto *CE = dyn_cast<CallExpr>(P)) {
        Callee = CE->getDirectCallee(); nargs = CE->getNumArgs(); argv = CE->getArgs();
        for (unsigned i = 0; i < nargs; ++i) if (argv[i] == cur) argi = i;
        if (argi < 0) { out.push_back(mk("read", "callee", P)); return; }
      } else if (auto *CC = dyn_cast<CXXConstructExpr>(P)) {
        Callee = CC->getConstructor(); nargs = CC->getNumArgs(); argv = CC->getArgs();
        for (unsigned i = 0; i < nargs; ++i) if (argv[i] == cur) argi = i;
      } else if (isa<InitListExpr>(P) || isa<CXXNewExpr>(P) || isa<CXXStdInitializerListExpr>(P)) {
        out.push_back(mk("read", "init", P)); return;
      } else if (isa<CompoundStmt>(P) || isa<IfStmt>(P) || isa<ForStmt>(P) || isa<WhileStmt>(P) || isa<DoStmt>(P)) {
        out.push_back(mk("read", "discarded", cur)); return;
      } else {
        Use u = mk("unknown", std::string("parent ") + P->getStmtClassName(), P); out.push_back(u); return;
      }
      if (argi < 0) { out.push_back(mk("read", "not-an-arg", P)); return; }
      int pi = argi - (objArg ? 1 : 0);
      if (!Callee || pi < 0 || pi >= (int)Callee->getNumParams()) {
        Use u = mk(Callee && Callee->isVariadic() ? "read" : "unknown", "unresolved parameter", P); out.push_back(u); return;
      }
      QualType PT = Callee->getParamDecl(pi)->getType();
      Use u = mk(nonConstTarget(PT) ? "escape" : "read", nonConstTarget(PT) ? "arg" : (isByRefOrPtr(PT) ? "const-arg" : "by-value"), P);
      u.callee = calleeName(Callee); u.calleeKey = fnKey(Callee); u.argi = pi;
      for (unsigned i = 0; i < nargs; ++i) u.args.push_back(text(argv[i]));
      out.push_back(u); return;
    }
  }
  static bool accessorName(const std::string &n) {
    static const char *names[] = {"operator[]", "operator()", "operator*", "operator->", "getValue", "at", "front", "back", "data", "begin", "end", "get", "baseTypeLowest", "min", "max", "direct_index", "unchecked_index", "unchecked_direct_index", "element", "row", "first", "second"};
    for (auto *x : names) if (n == x) return true;
    return false;
  }
  static bool containsExpr(const Stmt *root, const Stmt *x) {
    if (root == x) return true;
    for (const Stmt *c : root->children()) if (c && containsExpr(c, x)) return true;
    return false;
  }

  std::pair<std::string, bool> atom(const Expr *E) {
    bool pol = true;
    for (int i = 0; i < 16 && E; ++i) {
      E = E->IgnoreParenImpCasts();
      if (auto *EW = dyn_cast<ExprWithCleanups>(E)) { E = EW->getSubExpr(); continue; }
      if (auto *UO = dyn_cast<UnaryOperator>(E)) if (UO->getOpcode() == UO_LNot) { pol = !pol; E = UO->getSubExpr(); continue; }
      break;
    }
    return {text(E), pol};
  }

  static bool recordHasField(const CXXRecordDecl *RD, StringRef name) {
    if (!RD) return false;
    RD = RD->getDefinition();
    if (!RD) return false;
    for (auto *F : RD->fields()) if (nm(F) == name) return true;
    return false;
  }
  static bool derivesFrom(const CXXRecordDecl *RD, StringRef qname, int depth = 0) {
    if (!RD || depth > 8) return false;
    RD = RD->getDefinition();
    if (!RD) return false;
    if (RD->getQualifiedNameAsString() == qname) return true;
    for (auto &B : RD->bases()) if (derivesFrom(B.getType()->getAsCXXRecordDecl(), qname, depth + 1)) return true;
    return false;
  }
  std::string objKind(const Expr *Base) {
    Base = Base->IgnoreParenImpCasts();
    if (isa<CXXThisExpr>(Base)) return "this";
    if (auto *DR = dyn_cast<DeclRefExpr>(Base)) {
      if (auto *PV = dyn_cast<ParmVarDecl>(DR->getDecl())) return "param:" + PV->getNameAsString();
      if (auto *VD = dyn_cast<VarDecl>(DR->getDecl())) return std::string(VD->getType()->isReferenceType() || VD->getType()->isPointerType() ? "localref:" : "local:") + VD->getNameAsString();
    }
    if (auto *ME = dyn_cast<MemberExpr>(Base)) if (isa<CXXThisExpr>(ME->getBase()->IgnoreParenImpCasts())) return "member:" + ME->getMemberDecl()->getNameAsString();
    if (auto *UO = dyn_cast<UnaryOperator>(Base)) if (UO->getOpcode() == UO_Deref) return objKind(UO->getSubExpr());
    return "expr:" + text(Base);
  }

  json::Value usesJson(std::vector<Use> &uses) {
    json::Array A;
    for (auto &u : uses) {
      json::Object o{{"kind", u.kind}, {"how", u.how}, {"loc", u.loc}, {"block", u.block}};
      if (!u.callee.empty()) { o["callee"] = u.callee; o["calleeKey"] = u.calleeKey; o["argi"] = u.argi; json::Array aa; for (auto &a : u.args) aa.push_back(a); o["args"] = std::move(aa); }
      A.push_back(std::move(o));
    }
    return std::move(A);
  }

  // ---- collecting visitor over one body
  struct BodyVisitor : RecursiveASTVisitor<BodyVisitor> {
    FnAnalyser &A; json::Array &Ev;
    BodyVisitor(FnAnalyser &a, json::Array &ev) : A(a), Ev(ev) {}
    bool shouldVisitImplicitCode() const { return true; }
    bool TraverseLambdaExpr(LambdaExpr *) { return true; }
    bool VisitDeclRefExpr(DeclRefExpr *DR) { if (auto *VD = dyn_cast<VarDecl>(DR->getDecl())) A.Refs[VD].push_back(DR); return true; }
  };
  struct EventVisitor : RecursiveASTVisitor<EventVisitor> {
    FnAnalyser &A; json::Array &Ev;
    EventVisitor(FnAnalyser &a, json::Array &ev) : A(a), Ev(ev) {}
    bool shouldVisitImplicitCode() const { return true; }
    bool TraverseLambdaExpr(LambdaExpr *) { return true; }

    void base(json::Object &o, const Stmt *S) { auto b = A.blockOf(S); o["loc"] = A.locstr(S->getBeginLoc()); o["block"] = b.first; o["idx"] = b.second; }

    bool VisitArraySubscriptExpr(ArraySubscriptExpr *AS) {
      auto *ME = dyn_cast<MemberExpr>(AS->getBase()->IgnoreParenImpCasts());
      if (!ME) return true;
      auto *F = dyn_cast<FieldDecl>(ME->getMemberDecl());
      if (!F || nm(F) != "_ptr") return true;
      auto *RD = dyn_cast<CXXRecordDecl>(F->getParent());
      json::Object o{{"k", "store"}, {"text", A.text(AS)}, {"obj", A.objKind(ME->getBase())}, {"cls", RD ? RD->getNameAsString() : ""}, {"guarded_cls", recordHasField(RD, "_writable")}, {"index", A.text(AS->getIdx())}};
      base(o, AS);
      std::vector<Use> uses; A.classify(AS, uses, 0); o["uses"] = A.usesJson(uses);
      Ev.push_back(std::move(o));
      return true;
    }
    bool VisitCXXThrowExpr(CXXThrowExpr *T) {
      bool inTry = false;
      for (const Stmt *p = A.PM->getParent(T); p; p = A.PM->getParent(p)) if (isa<CXXTryStmt>(p)) inTry = true;
      json::Object o{{"k", "throw"}, {"type", T->getSubExpr() ? T->getSubExpr()->getType().getAsString() : "rethrow"}, {"in_try", inTry}};
      base(o, T); Ev.push_back(std::move(o)); return true;
    }
    bool VisitCXXCatchStmt(CXXCatchStmt *C) {
      json::Object o{{"k", "catch"}, {"type", C->getExceptionDecl() ? C->getCaughtType().getAsString() : "..."}};
      base(o, C); Ev.push_back(std::move(o)); return true;
    }
    static const CXXRecordDecl *excType(const Expr *E) {
      E = E->IgnoreParenImpCasts();
      if (auto *EW = dyn_cast<ExprWithCleanups>(E)) E = EW->getSubExpr()->IgnoreParenImpCasts();
      if (auto *FC = dyn_cast<CXXFunctionalCastExpr>(E)) E = FC->getSubExpr()->IgnoreParenImpCasts();
      if (auto *BT = dyn_cast<CXXBindTemporaryExpr>(E)) E = BT->getSubExpr()->IgnoreParenImpCasts();
      if (auto *FC = dyn_cast<CXXFunctionalCastExpr>(E)) E = FC->getSubExpr()->IgnoreParenImpCasts();
      if (auto *BT = dyn_cast<CXXBindTemporaryExpr>(E)) E = BT->getSubExpr()->IgnoreParenImpCasts();
      if (auto *CE = dyn_cast<CXXConstructExpr>(E)) return CE->getType()->getAsCXXRecordDecl();
      return nullptr;
    }
    bool VisitCompoundStmt(CompoundStmt *CS) { for (auto *S : CS->body()) checkDiscard(S); return true; }
    bool VisitIfStmt(IfStmt *I) { checkDiscard(I->getThen()); checkDiscard(I->getElse()); return true; }
    bool VisitForStmt(ForStmt *F) { checkDiscard(F->getBody()); return true; }
    bool VisitWhileStmt(WhileStmt *F) { checkDiscard(F->getBody()); return true; }
    void checkDiscard(const Stmt *S) {
      auto *E = dyn_cast_or_null<Expr>(S);
      if (!E) return;
      const CXXRecordDecl *RD = excType(E);
      if (RD && derivesFrom(RD, "std::exception")) {
        json::Object o{{"k", "discard"}, {"type", RD->getQualifiedNameAsString()}, {"text", A.text(E)}};
        base(o, E); Ev.push_back(std::move(o));
      }
    }
    bool VisitCXXConstructExpr(CXXConstructExpr *CE) {
      auto *RD = CE->getType()->getAsCXXRecordDecl();
      if (!RD) return true;
      StringRef n = nm(RD);
      bool family = n == "FixedArray" || n == "FixedVArray" || n == "FixedArray2D" || n == "FixedMatrix" || n.endswith("Access") || derivesFrom(RD, "PyImath::Task");
      if (!family) return true;
      json::Object o{{"k", "construct"}, {"cls", n.str()}, {"type", CE->getType().getAsString()}, {"text", A.text(CE)}};
      json::Array args, ptypes, pnames, defaulted;
      auto *Ctor = CE->getConstructor();
      for (unsigned i = 0; i < CE->getNumArgs(); ++i) {
        args.push_back(A.text(CE->getArg(i)));
        defaulted.push_back(isa<CXXDefaultArgExpr>(CE->getArg(i)));
        if (i < Ctor->getNumParams()) { ptypes.push_back(Ctor->getParamDecl(i)->getType().getAsString()); pnames.push_back(Ctor->getParamDecl(i)->getNameAsString()); }
      }
      o["args"] = std::move(args); o["ptypes"] = std::move(ptypes); o["pnames"] = std::move(pnames); o["defaulted"] = std::move(defaulted);
      o["ctorKey"] = A.fnKey(Ctor);
      const Stmt *P = A.PM->getParent(CE);
      while (P && (isa<ExprWithCleanups>(P) || isa<ImplicitCastExpr>(P) || isa<CXXBindTemporaryExpr>(P) || isa<MaterializeTemporaryExpr>(P) || isa<CXXFunctionalCastExpr>(P))) P = A.PM->getParent(P);
      if (auto *DS = dyn_cast_or_null<DeclStmt>(P)) { if (DS->isSingleDecl()) if (auto *VD = dyn_cast<VarDecl>(DS->getSingleDecl())) o["var"] = VD->getNameAsString(); }
      else if (P && isa<ReturnStmt>(P)) o["returned"] = true;
      else if (P && isa<CXXNewExpr>(P)) o["new"] = true;
      base(o, CE); Ev.push_back(std::move(o)); return true;
    }
    bool VisitCallExpr(CallExpr *CE) {
      const FunctionDecl *Callee = CE->getDirectCallee();
      std::string name = Callee ? Callee->getQualifiedNameAsString() : "";
      if (!Callee) {
        if (auto *ME = dyn_cast<MemberExpr>(CE->getCallee()->IgnoreParenImpCasts())) name = "?::" + ME->getMemberDecl()->getNameAsString();
        else name = "?indirect";
      }
      json::Object o{{"k", "call"}, {"name", name}};
      if (Callee) {
        o["key"] = A.inDirs(Callee->getLocation()) || (Callee->getTemplateInstantiationPattern() && A.inDirs(Callee->getTemplateInstantiationPattern()->getLocation())) ? A.fnKey(Callee) : "";
        if (Callee->isNoReturn()) o["noreturn"] = true;
        if (const TemplateArgumentList *TAL = Callee->getTemplateSpecializationArgs()) {
          json::Array ta;
          for (unsigned ti = 0; ti < TAL->size() && ti < 8; ++ti) { std::string a; { raw_string_ostream os(a); TAL->get(ti).print(A.FD->getASTContext().getPrintingPolicy(), os, true); } ta.push_back(a); }
          o["targs"] = std::move(ta);
        }
        if (auto *MD = dyn_cast<CXXMethodDecl>(Callee)) { if (MD->isVirtual()) o["virtual"] = true; if (MD->isConst()) o["const"] = true; }
      }
      if (auto *MC = dyn_cast<CXXMemberCallExpr>(CE)) { if (auto *Obj = MC->getImplicitObjectArgument()) { o["obj"] = A.text(Obj); o["objKind"] = A.objKind(Obj); } }
      else if (auto *OC = dyn_cast<CXXOperatorCallExpr>(CE)) { if (OC->getNumArgs() > 0 && Callee && isa<CXXMethodDecl>(Callee)) { o["obj"] = A.text(OC->getArg(0)); o["objKind"] = A.objKind(OC->getArg(0)); } }
      json::Array args;
      for (unsigned i = 0; i < CE->getNumArgs() && i < 8; ++i) args.push_back(A.text(CE->getArg(i)));
      o["args"] = std::move(args);
      SourceLocation L = CE->getBeginLoc();
      if (L.isMacroID()) o["macro"] = Lexer::getImmediateMacroName(L, A.SM, A.LO).str();
      base(o, CE);
      // calls whose result is a storage lvalue
      if (Callee && A.Escape.count(Callee->getNameAsString())) {
        std::vector<Use> uses; A.classify(CE, uses, 0); o["uses"] = A.usesJson(uses); o["storage_call"] = true;
      }
      // python bindings
      if (Callee && (nm(Callee) == "def" || nm(Callee) == "add_property" || nm(Callee) == "add_static_property" || nm(Callee) == "def_readwrite" || nm(Callee) == "def_readonly" || nm(Callee) == "staticmethod") && name.rfind("boost::python", 0) == 0)
        binding(CE, o);
      Ev.push_back(std::move(o));
      return true;
    }
    void scanBind(const Stmt *S, json::Array &targets, json::Array &policies, int depth) {
      if (!S || depth > 12) return;
      if (auto *E = dyn_cast<Expr>(S)) {
        if (auto *DR = dyn_cast<DeclRefExpr>(E)) {
          if (auto *F = dyn_cast<FunctionDecl>(DR->getDecl())) {
            std::string qn = F->getQualifiedNameAsString();
            if (qn.rfind("boost::", 0) != 0 && qn.rfind("std::", 0) != 0) {
              json::Object t{{"name", qn}, {"key", A.fnKey(F)}, {"ret", F->getReturnType().getAsString()}, {"nparams", (int)F->getNumParams()}};
              if (auto *MD = dyn_cast<CXXMethodDecl>(F)) { t["method"] = true; t["const"] = MD->isConst(); t["static"] = MD->isStatic(); }
              json::Array pt; for (auto *P : F->parameters()) pt.push_back(P->getType().getAsString()); t["ptypes"] = std::move(pt);
              targets.push_back(std::move(t));
            }
          } else if (auto *VD = dyn_cast<VarDecl>(DR->getDecl())) {
            if (VD->hasInit() && VD->isLocalVarDecl()) scanBind(VD->getInit(), targets, policies, depth + 1);
          }
        }
        if (isa<CXXConstructExpr>(E) || isa<CXXTemporaryObjectExpr>(E) || isa<CXXFunctionalCastExpr>(E)) {
          std::string ts = E->getType().getCanonicalType().getAsString();
          if (ts.find("policy") != std::string::npos || ts.find("custodian") != std::string::npos || ts.find("return_internal") != std::string::npos || ts.find("policies") != std::string::npos)
            if (ts.find("keywords") == std::string::npos) { bool dup = false; for (auto &v : policies) if (v.getAsString() && *v.getAsString() == ts) dup = true; if (!dup) policies.push_back(ts); }
        }
      }
      for (const Stmt *c : S->children()) scanBind(c, targets, policies, depth + 1);
    }
    void binding(CallExpr *CE, json::Object &o) {
      json::Array targets, policies;
      std::string pyname;
      if (CE->getNumArgs() > 0) if (auto *SL = dyn_cast<clang::StringLiteral>(CE->getArg(0)->IgnoreParenImpCasts())) pyname = SL->getString().str();
      for (unsigned i = 0; i < CE->getNumArgs(); ++i) scanBind(CE->getArg(i), targets, policies, 0);
      o["bind"] = json::Object{{"py", pyname}, {"targets", std::move(targets)}, {"policies", std::move(policies)}};
      if (auto *MC = dyn_cast<CXXMemberCallExpr>(CE)) if (auto *Obj = MC->getImplicitObjectArgument()) o["bind_class"] = Obj->getType().getCanonicalType().getAsString();
    }
    bool VisitBinaryOperator(BinaryOperator *BO) {
      if (!BO->isAssignmentOp()) return true;
      if (auto *AS = dyn_cast<ArraySubscriptExpr>(BO->getLHS()->IgnoreParenImpCasts())) {
        if (auto *M2 = dyn_cast<MemberExpr>(AS->getBase()->IgnoreParenImpCasts())) if (isa<FieldDecl>(M2->getMemberDecl()) && nm(M2->getMemberDecl()) != "_ptr") {
          json::Object o{{"k", "elemw"}, {"field", M2->getMemberDecl()->getNameAsString()}, {"obj", A.objKind(M2->getBase())}, {"index", A.text(AS->getIdx())}, {"rhs", A.text(BO->getRHS())}};
          base(o, BO); Ev.push_back(std::move(o));
        }
        return true;
      }
      auto *ME = dyn_cast<MemberExpr>(BO->getLHS()->IgnoreParenImpCasts());
      if (!ME || !isa<FieldDecl>(ME->getMemberDecl())) return true;
      json::Object o{{"k", "fieldw"}, {"field", ME->getMemberDecl()->getNameAsString()}, {"obj", A.objKind(ME->getBase())}, {"rhs", A.text(BO->getRHS())}, {"how", "assign"}};
      base(o, BO); Ev.push_back(std::move(o)); return true;
    }
    bool VisitCXXMemberCallExpr(CXXMemberCallExpr *MC) {
      // non-const method called on a field (e.g. _indices.reset(...))
      auto *MD = MC->getMethodDecl();
      if (!MD || MD->isConst()) return true;
      auto *Obj = MC->getImplicitObjectArgument();
      if (!Obj) return true;
      auto *ME = dyn_cast<MemberExpr>(Obj->IgnoreParenImpCasts());
      if (!ME || !isa<FieldDecl>(ME->getMemberDecl())) return true;
      json::Object o{{"k", "fieldw"}, {"field", ME->getMemberDecl()->getNameAsString()}, {"obj", A.objKind(ME->getBase())}, {"rhs", A.text(MC)}, {"how", "call:" + MD->getNameAsString()}};
      base(o, MC); Ev.push_back(std::move(o)); return true;
    }
    bool VisitCXXOperatorCallExpr(CXXOperatorCallExpr *OC) {
      // assignment to a class-typed field (shared_array, any, ...)
      if (OC->getOperator() != OO_Equal || OC->getNumArgs() < 1) return true;
      auto *ME = dyn_cast<MemberExpr>(OC->getArg(0)->IgnoreParenImpCasts());
      if (!ME || !isa<FieldDecl>(ME->getMemberDecl())) return true;
      json::Object o{{"k", "fieldw"}, {"field", ME->getMemberDecl()->getNameAsString()}, {"obj", A.objKind(ME->getBase())}, {"rhs", OC->getNumArgs() > 1 ? A.text(OC->getArg(1)) : ""}, {"how", "assign"}};
      base(o, OC); Ev.push_back(std::move(o)); return true;
    }
    // references to locals declared outside every loop, in Task::execute overrides (scratch state carried
    // from one index to the next)
    bool VisitDeclRefExpr(DeclRefExpr *DR) {
      // writes to objects with static storage duration (globals, static members, function-local statics): state that every
      // thread running this function shares
      if (auto *SV = dyn_cast<VarDecl>(DR->getDecl())) if (SV->hasGlobalStorage() && !SV->getType().isConstQualified() && !SV->getType()->isReferenceType()) {
        std::vector<Use> us; A.classify(DR, us, 0);
        std::string how; bool w = false;
        for (auto &u : us) if (u.kind == "write" || u.kind == "escape") { w = true; how = u.kind + ":" + u.how; break; }
        if (w) {
          json::Object o{{"k", "staticw"}, {"name", SV->getQualifiedNameAsString()}, {"how", how}, {"local", SV->isStaticLocal()}, {"type", SV->getType().getAsString()}};
          base(o, DR); Ev.push_back(std::move(o));
        }
      }
      if (!A.TaskExecute) return true;
      auto *VD = dyn_cast<VarDecl>(DR->getDecl());
      if (!VD || !VD->isLocalVarDecl() || isa<ParmVarDecl>(VD)) return true;
      if (!A.OuterLocals.count(VD)) return true;
      std::vector<Use> uses; A.classify(DR, uses, 0);
      std::string kind = "read", how;
      for (auto &u : uses) {
        if (u.kind == "write" && (u.how == "assign" || u.how == "op:operator=")) { kind = "kill"; how = u.how; break; }
        if (u.kind == "escape" && u.how == "arg") { kind = "kill"; how = "out-arg:" + u.callee; }
        else if (u.kind == "write" || u.kind == "escape") { if (kind != "kill") { kind = "rmw"; how = u.how; } }
        else if (u.kind == "unknown") { if (kind == "read") { kind = "unknown"; how = u.how; } }
      }
      // compound assignment reads the old value
      if (kind == "kill") if (const Stmt *P = A.PM->getParent(DR)) if (auto *BO = dyn_cast<BinaryOperator>(P)) if (BO->isCompoundAssignmentOp()) kind = "rmw";
      json::Object o{{"k", "lref"}, {"name", VD->getNameAsString()}, {"kind", kind}, {"how", how}};
      base(o, DR); Ev.push_back(std::move(o));
      return true;
    }
    bool VisitDeclStmt(DeclStmt *DS) {
      for (auto *D : DS->decls()) if (auto *VD = dyn_cast<VarDecl>(D)) {
        json::Object o{{"k", "vardecl"}, {"name", VD->getNameAsString()}, {"type", VD->getType().getAsString()}, {"init", VD->getInit() ? A.text(VD->getInit()) : ""}};
        if (auto *RD = VD->getType()->getAsCXXRecordDecl()) { if (derivesFrom(RD, "PyImath::Task")) o["task"] = true; o["cls"] = RD->getNameAsString(); }
        if (auto *PT = VD->getType()->getAs<PointerType>()) if (auto *RD = PT->getPointeeType()->getAsCXXRecordDecl()) o["pointee_cls"] = RD->getNameAsString();
        base(o, DS); Ev.push_back(std::move(o));
      }
      return true;
    }
    bool VisitReturnStmt(ReturnStmt *RS) {
      json::Object o{{"k", "return"}, {"text", A.text(RS->getRetValue())}};
      base(o, RS); Ev.push_back(std::move(o)); return true;
    }
    // loops (for Task::execute and length rules)
    bool VisitForStmt2(ForStmt *) { return true; }
  };

  void loops(const Stmt *S, json::Array &out, int depth) {
    if (!S) return;
    if (auto *F = dyn_cast<ForStmt>(S)) {
      json::Object o{{"init", text(F->getInit())}, {"cond", text(F->getCond())}, {"inc", text(F->getInc())}, {"depth", depth}, {"loc", locstr(F->getBeginLoc())}};
      std::string var;
      if (auto *DS = dyn_cast_or_null<DeclStmt>(F->getInit())) if (DS->isSingleDecl()) if (auto *VD = dyn_cast<VarDecl>(DS->getSingleDecl())) { var = VD->getNameAsString(); o["var_init"] = text(VD->getInit()); o["var_type"] = VD->getType().getAsString(); }
      o["var"] = var;
      // every subscript in the body
      json::Array subs;
      subscripts(F->getBody(), subs);
      subscripts(F->getCond(), subs);
      o["subs"] = std::move(subs);
      out.push_back(std::move(o));
      loops(F->getBody(), out, depth + 1);
      return;
    }
    if (isa<WhileStmt>(S) || isa<DoStmt>(S) || isa<CXXForRangeStmt>(S)) {
      out.push_back(json::Object{{"other_loop", S->getStmtClassName()}, {"loc", locstr(S->getBeginLoc())}, {"depth", depth}});
    }
    for (const Stmt *c : S->children()) loops(c, out, depth);
  }
  void subscripts(const Stmt *S, json::Array &subs) {
    if (!S) return;
    const Expr *Base = nullptr, *Idx = nullptr;
    if (auto *AS = dyn_cast<ArraySubscriptExpr>(S)) { Base = AS->getBase(); Idx = AS->getIdx(); }
    else if (auto *OC = dyn_cast<CXXOperatorCallExpr>(S)) { if (OC->getOperator() == OO_Subscript && OC->getNumArgs() == 2) { Base = OC->getArg(0); Idx = OC->getArg(1); } }
    if (Base) {
      std::vector<Use> uses; classify(cast<Expr>(S), uses, 0);
      bool w = false, unk = false; for (auto &u : uses) { if (u.kind == "write" || u.kind == "escape") w = true; if (u.kind == "unknown") unk = true; }
      subs.push_back(json::Object{{"base", text(Base)}, {"baseKind", objKind(Base)}, {"index", text(Idx)}, {"write", w}, {"unknown", unk}, {"loc", locstr(S->getBeginLoc())}, {"baseType", Base->getType().getAsString()}});
    }
    for (const Stmt *c : S->children()) subscripts(c, subs);
  }

  json::Value analyse(const FunctionDecl *F) {
    FD = F; BlockOf.clear(); Refs.clear();
    Stmt *Body = F->getBody();
    json::Object fn;
    fn["name"] = F->getQualifiedNameAsString();
    fn["key"] = fnKey(F);
    fn["loc"] = locstr(F->getLocation());
    fn["ret"] = F->getReturnType().getAsString();
    {
      std::string s; raw_string_ostream os(s); F->getNameForDiagnostic(os, Ctx.getPrintingPolicy(), true); fn["inst"] = os.str();
    }
    json::Array params;
    for (auto *P : F->parameters()) params.push_back(json::Object{{"name", P->getNameAsString()}, {"type", P->getType().getAsString()}});
    fn["params"] = std::move(params);
    if (auto *MD = dyn_cast<CXXMethodDecl>(F)) {
      const CXXRecordDecl *RD = MD->getParent();
      fn["cls"] = RD->getNameAsString(); fn["cls_q"] = RD->getQualifiedNameAsString();
      fn["const"] = MD->isConst(); fn["static"] = MD->isStatic(); fn["virtual"] = MD->isVirtual();
      fn["cls_has_writable"] = recordHasField(RD, "_writable");
      fn["cls_task"] = derivesFrom(RD, "PyImath::Task");
      json::Array ov; for (auto *O : MD->overridden_methods()) ov.push_back(fnKey(O)); fn["overrides"] = std::move(ov);
      if (auto *OuterRD = dyn_cast<CXXRecordDecl>(RD->getDeclContext())) fn["outer_cls"] = OuterRD->getNameAsString();
      if (auto *CD = dyn_cast<CXXConstructorDecl>(MD)) {
        fn["ctor"] = true; fn["copy_ctor"] = CD->isCopyConstructor();
        json::Array inits;
        for (auto *I : CD->inits()) if (I->isWritten()) {
          std::string nm = I->isMemberInitializer() ? I->getMember()->getNameAsString() : (I->isBaseInitializer() ? "<base>" : "<other>");
          std::string fty = I->isMemberInitializer() ? I->getMember()->getType().getAsString() : std::string();
          inits.push_back(json::Object{{"field", nm}, {"text", text(I->getInit())}, {"ftype", fty}});
        }
        fn["inits"] = std::move(inits);
      }
      if (isa<CXXDestructorDecl>(MD)) fn["dtor"] = true;
      if (MD->isCopyAssignmentOperator()) fn["copy_assign"] = true;
    }
    CFG::BuildOptions BO; BO.setAllAlwaysAdd(); BO.AddImplicitDtors = false; BO.AddEHEdges = false; BO.PruneTriviallyFalseEdges = false;
    G = CFG::buildCFG(F, Body, &Ctx, BO);
    PM.reset(new ParentMap(Body));
    json::Array blocks;
    if (G) {
      for (CFGBlock *B : *G) {
        int ei = 0;
        for (auto &E : *B) { if (auto S = E.getAs<CFGStmt>()) BlockOf[S->getStmt()] = {(int)B->getBlockID(), ei}; ++ei; }
        if (const Stmt *T = B->getTerminatorStmt()) if (!BlockOf.count(T)) BlockOf[T] = {(int)B->getBlockID(), ei};
      }
      for (CFGBlock *B : *G) {
        json::Object b{{"id", (int)B->getBlockID()}};
        json::Array succ;
        for (auto I = B->succ_begin(); I != B->succ_end(); ++I) { CFGBlock *S = I->getReachableBlock(); if (!S) S = I->getPossiblyUnreachableBlock(); succ.push_back(S ? (int)S->getBlockID() : -1); }
        b["succ"] = std::move(succ);
        if (B->succ_size() == 2) {
          const Expr *C = B->getLastCondition();          // for `a && b` terminators this is the operand decided in this block
          if (!C) if (const Stmt *TC = B->getTerminatorCondition()) C = dyn_cast<Expr>(TC);
          if (C) { auto a = atom(C); b["cond"] = a.first; b["pol"] = a.second; }
        }
        // how does the block end: the first element after which control does not continue
        std::string leave; int leaveIdx = -1;
        {
          int ei = 0;
          for (auto &E : *B) {
            if (auto S = E.getAs<CFGStmt>()) {
              const Stmt *L = S->getStmt();
              if (isa<CXXThrowExpr>(L)) { leave = "throw"; leaveIdx = ei; break; }
              if (auto *CE = dyn_cast<CallExpr>(L)) if (auto *C = CE->getDirectCallee()) {
                if (C->isNoReturn()) { leave = "noreturn"; leaveIdx = ei; break; }
                if (nm(C) == "throw_error_already_set") { leave = "throw"; leaveIdx = ei; break; }
              }
            }
            ++ei;
          }
        }
        if (const Stmt *T = B->getTerminatorStmt()) if (isa<CXXThrowExpr>(T) && leave.empty()) { leave = "throw"; leaveIdx = (int)B->size(); }
        if (B->hasNoReturnElement()) if (leave.empty()) { leave = "noreturn"; leaveIdx = (int)B->size(); }
        if (leaveIdx >= 0) b["leave_idx"] = leaveIdx;
        if (!leave.empty()) b["leave"] = leave;
        blocks.push_back(std::move(b));
      }
      fn["entry"] = (int)G->getEntry().getBlockID(); fn["exit"] = (int)G->getExit().getBlockID();
    }
    fn["blocks"] = std::move(blocks);
    json::Array ev;
    TaskExecute = false; OuterLocals.clear();
    if (auto *MD = dyn_cast<CXXMethodDecl>(F)) if (derivesFrom(MD->getParent(), "PyImath::Task") && nm(F) == "execute") {
      TaskExecute = true;
      if (auto *CS = dyn_cast<CompoundStmt>(Body)) for (auto *S : CS->body()) if (auto *DS = dyn_cast<DeclStmt>(S)) for (auto *D : DS->decls()) if (auto *VD = dyn_cast<VarDecl>(D)) OuterLocals.insert(VD);
    }
    { BodyVisitor BV(*this, ev); BV.TraverseStmt(Body); }
    { EventVisitor EV(*this, ev); EV.TraverseStmt(Body); }
    // constructor initialisers: constructions / storage uses inside them are not in the body
    if (auto *CD = dyn_cast<CXXConstructorDecl>(F)) for (auto *I : CD->inits()) if (I->isWritten() && I->getInit()) {
      // parent map for the initialiser expression
    }
    fn["events"] = std::move(ev);
    json::Array lp; loops(Body, lp, 0); fn["loops"] = std::move(lp);
    // top-level statements of the body (for the shape of Task::execute)
    json::Array top;
    if (auto *CS = dyn_cast<CompoundStmt>(Body)) for (auto *S : CS->body()) top.push_back(json::Object{{"cls", S->getStmtClassName()}, {"text", text(S).substr(0, 160)}, {"shape", shape(S, F, 0)}});
    fn["top"] = std::move(top);
    G.reset(); PM.reset();
    return std::move(fn);
  }
};

class Consumer : public ASTConsumer, public RecursiveASTVisitor<Consumer> {
public:
  CompilerInstance &CI; FnAnalyser *A = nullptr; json::Array Fns, Vars, Specs, Records; std::map<std::string, unsigned> Seen; std::set<std::string> SeenInst;
  Consumer(CompilerInstance &ci) : CI(ci) {}
  bool shouldVisitTemplateInstantiations() const { return true; }
  bool shouldVisitImplicitCode() const { return false; }

  void HandleTranslationUnit(ASTContext &Ctx) override {
    FnAnalyser an(Ctx); an.Dirs = splitc(OptDirs); A = &an;
    TraverseDecl(Ctx.getTranslationUnitDecl());
    json::Object root{{"functions", std::move(Fns)}, {"vars", std::move(Vars)}, {"specs", std::move(Specs)}, {"records", std::move(Records)}};
    root["main"] = an.relfile(Ctx.getSourceManager().getFileEntryForID(Ctx.getSourceManager().getMainFileID())->getName());
    std::error_code EC; raw_fd_ostream OS(OptOut, EC);
    OS << json::Value(std::move(root)); OS << "\n";
  }
  bool VisitFunctionDecl(FunctionDecl *F) {
    if (!F->doesThisDeclarationHaveABody() || F->isDependentContext() || F->isDeleted() || F->isDefaulted()) return true;
    SourceLocation L = F->getLocation();
    if (!A->inDirs(L)) return true;
    std::string key = A->fnKey(F);
    unsigned &n = Seen[key];
    if (n >= OptMaxInst) { ++n; return true; }
    std::string inst; { raw_string_ostream os(inst); F->getNameForDiagnostic(os, F->getASTContext().getPrintingPolicy(), true); }
    if (!SeenInst.insert(key + "|" + inst).second) return true;
    ++n;
    Fns.push_back(A->analyse(F));
    return true;
  }
  bool VisitVarDecl(VarDecl *V) {
    if (!V->hasGlobalStorage() || !V->hasInit() || !A->inDirs(V->getLocation())) return true;
    if (V->getType()->isDependentType()) return true;
    std::string ts = V->getType().getCanonicalType().getAsString();
    if (ts.find("PyBufferProcs") == std::string::npos) return true;
    json::Array targets;
    std::function<void(const Stmt *)> scan = [&](const Stmt *S) {
      if (!S) return;
      if (auto *DR = dyn_cast<DeclRefExpr>(S)) if (auto *F = dyn_cast<FunctionDecl>(DR->getDecl())) targets.push_back(json::Object{{"name", F->getQualifiedNameAsString()}, {"key", A->fnKey(F)}});
      for (const Stmt *c : S->children()) scan(c);
    };
    scan(V->getInit());
    Vars.push_back(json::Object{{"name", V->getQualifiedNameAsString()}, {"type", ts}, {"loc", A->locstr(V->getLocation())}, {"targets", std::move(targets)}});
    return true;
  }
  bool VisitClassTemplateSpecializationDecl(ClassTemplateSpecializationDecl *D) {
    if (!A->inDirs(D->getLocation()) || !D->isExplicitSpecialization()) return true;
    StringRef n = nm(D);
    if (!(n == "FixedArrayWidth" || n == "FixedArrayDimension" || n == "FixedArrayAtomicSize")) return true;
    std::string arg; { raw_string_ostream os(arg); D->getTemplateArgs()[0].print(D->getASTContext().getPrintingPolicy(), os, true); }
    json::Object o{{"trait", n.str()}, {"arg", arg}, {"loc", A->locstr(D->getLocation())}};
    for (auto *M : D->decls()) if (auto *V = dyn_cast<VarDecl>(M)) if (nm(V) == "value" && V->hasInit()) {
      Expr::EvalResult R; if (V->getInit()->EvaluateAsInt(R, D->getASTContext())) o["value"] = (int64_t)R.Val.getInt().getSExtValue();
    }
    if (D->getTemplateArgs()[0].getKind() == TemplateArgument::Type) o["sizeof"] = (int64_t)D->getASTContext().getTypeSizeInChars(D->getTemplateArgs()[0].getAsType()).getQuantity();
    Specs.push_back(std::move(o));
    return true;
  }
  bool VisitCXXRecordDecl(CXXRecordDecl *RD) {
    if (!RD->isThisDeclarationADefinition() || !A->inDirs(RD->getLocation()) || RD->isDependentContext()) return true;
    if (isa<ClassTemplateSpecializationDecl>(RD) && Seen["rec:" + A->locstr(RD->getLocation())]++ > 0) return true;
    json::Array fields, bases;
    for (auto *F : RD->fields()) fields.push_back(json::Object{{"name", F->getNameAsString()}, {"type", F->getType().getAsString()}});
    for (auto &B : RD->bases()) bases.push_back(B.getType().getAsString());
    Records.push_back(json::Object{{"name", RD->getQualifiedNameAsString()}, {"loc", A->locstr(RD->getLocation())}, {"fields", std::move(fields)}, {"bases", std::move(bases)}, {"task", FnAnalyser::derivesFrom(RD, "PyImath::Task")}});
    return true;
  }
};

class Action : public ASTFrontendAction {
public:
  std::unique_ptr<ASTConsumer> CreateASTConsumer(CompilerInstance &CI, StringRef) override { return std::make_unique<Consumer>(CI); }
};

} // namespace

int main(int argc, const char **argv) {
  auto EP = tooling::CommonOptionsParser::create(argc, argv, Cat);
  if (!EP) { errs() << toString(EP.takeError()); return 2; }
  tooling::ClangTool Tool(EP->getCompilations(), EP->getSourcePathList());
  return Tool.run(tooling::newFrontendActionFactory<Action>().get());
}
