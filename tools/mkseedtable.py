#!/usr/bin/env python3
"""Regenerate the table of DESIGN.md section 11.7 from seeded/*/meta.json (between the seeded-table markers)."""
import json, os, glob, re
VERIF = os.path.dirname(os.path.dirname(os.path.abspath(__file__)))
rows = []; n = 0; built = 0; neigh = 0
def key(d):
    b = os.path.basename(d); m = re.match(r'(C\d+)(?:-r(\d+))?', b); return (m.group(1), int(m.group(2) or 1))
rounds = set()
for d in sorted(glob.glob(os.path.join(VERIF, 'seeded', '*')), key=key):
    m = json.load(open(os.path.join(d, 'meta.json')))
    sid = os.path.basename(d); n += 1; rounds.add(key(d)[1])
    h = m.get('check_history', 'caught by the check as built')
    asbuilt = h.startswith('caught')
    built += asbuilt
    if asbuilt and len(m.get('caught_by', [])) > 1: neigh += 1
    hist = 'caught as built' if asbuilt else h.replace('missed at first:', 'missed at first ->').replace('|', '/')
    rows.append('| %s | %s | %s | %s |' % (sid, m['summary'][:170].replace('|', '/').replace('\n', ' '), ', '.join(m.get('caught_by', [])), hist[:260]))
head = ('%d rounds of independent agents (%d changes; each agent saw only the property text, from round 2 on also one-line\n'
        'summaries of the earlier seeds of its property so as to pick another clause).  Every change was confirmed by us in its scratch\n'
        'worktree (rebuild, 38/38 tests, demonstration on the changed and on the original tree; for C19/C20 with a scratch\n'
        'build of the bindings) before being kept under `seeded/<id>[-rN]/` (patch.diff, demo, meta.json).\n'
        '`python3 selftest/run_seeded.py` re-applies each to a scratch copy and expects the listed check to exit 1.\n\n'
        'Outcome: %d were caught by the checks as they stood; %d were missed at first and led to a *strengthened rule*\n'
        '(never to a special case for the seed): the last column says what was added.  After strengthening all %d are\n'
        'caught and the unchanged tree still passes every check.\n\n' % (len(rounds), n, built, n - built, n))
tbl = head + '| seed | change (agent\'s summary, abridged) | caught by | history |\n|---|---|---|---|\n' + '\n'.join(rows) + '\n'
p = os.path.join(VERIF, 'DESIGN.md'); s = open(p).read()
a, b = '<!-- seeded-table-begin -->\n', '<!-- seeded-table-end -->\n'
i, j = s.index(a) + len(a), s.index(b)
open(p, 'w').write(s[:i] + tbl + s[j:])
print('%d seeds, %d as built, %d strengthened' % (n, built, n - built))
