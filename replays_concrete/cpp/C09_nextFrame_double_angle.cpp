// Replay of the finding C09 R09.prec: nextFrame<double> computed its rotation angle with acosf, i.e. in single precision:
// the frame it returns does not carry the previous tangent onto the current one beyond ~1e-8 (double eps is 2e-16), and for a
// turn below ~3e-4 rad (dot rounds to 1.0f) no rotation is applied at all.
// build: g++ -std=c++17 -I/repo/src/Imath -I<configured build>/config C09_nextFrame_double_angle.cpp && ./a.out   (exit 1 = defect present)
#include <ImathMatrix.h>
#include <ImathVec.h>
#include <ImathFrame.h>
#include <cstdio>
#include <cmath>
using namespace Imath;
static int run(double ang) {
    V3d ti(1, 0, 0), tj(std::cos(ang), std::sin(ang), 0);
    V3d a = ti, b = tj;
    M44d I;
    M44d M = nextFrame(I, V3d(0, 0, 0), V3d(0, 0, 0), a, b);
    V3d got; M.multDirMatrix(ti, got);
    double err = (got - tj).length();
    printf("turn %.3g rad: |ti * M - tj| = %.3g (%s)\n", ang, err, err < 1e-10 ? "ok" : "single precision");
    return !(err < 1e-10);
}
int main() { int bad = run(0.3) + run(1.0) + run(2.5) + run(1e-4); printf(bad ? "VIOLATED\n" : "holds\n"); return bad != 0; }
