#include <ImathBoxAlgo.h>
#include <iostream>
int main(){ using namespace Imath; int bad=0;
 Box3f e; // empty
 Box3f res(V3f(1,2,3),V3f(4,5,6));
 M44f id;
 transform(e, id, res);
 if(!res.isEmpty()){ std::cout<<"transform(empty,m,result): result not empty: "<<res.min<<" "<<res.max<<"\n"; bad++; }
 Box3f inf; inf.makeInfinite(); Box3f res2(V3f(1,2,3),V3f(4,5,6));
 transform(inf, id, res2);
 if(!res2.isInfinite()){ std::cout<<"transform(infinite,m,result): result not infinite: "<<res2.min<<" "<<res2.max<<"\n"; bad++; }
 // projective path extends a stale result
 M44f p; p[0][3]=0.1f; Box3f b(V3f(0,0,0),V3f(1,1,1)); Box3f stale(V3f(-100,-100,-100),V3f(100,100,100));
 transform(b,p,stale); Box3f ref = transform(b,p);
 if(!(stale==ref)){ std::cout<<"projective: out-param result "<<stale.min<<" "<<stale.max<<" vs value form "<<ref.min<<" "<<ref.max<<"\n"; bad++; }
 return bad?1:0; }
