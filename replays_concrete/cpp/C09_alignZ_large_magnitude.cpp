// Replay of the finding C09 R09.range (repaired by /repo commit bd08d24): alignZAxisWithTargetDir (and rotationMatrixWithUpDir, which calls it) took the length of
// targetDir x (upDir x targetDir), a vector of degree 3 in the arguments: for float arguments of magnitude >= ~1e13 (double >= ~1e103)
// its squared length overflows and the frame comes back with zero / NaN axes although only the directions matter.
// build: g++ -std=c++17 -I/repo/src/Imath -I<configured build>/config C09_alignZ_large_magnitude.cpp && ./a.out   (exit 1 = defect present)
#include <ImathMatrixAlgo.h>
#include <ImathFrame.h>
#include <cstdio>
using namespace Imath;
template <class T> int run(T s, const char* nm) {
    Matrix44<T> m;
    alignZAxisWithTargetDir(m, Vec3<T>(s*T(0.3), s*T(-0.5), s*T(0.8)), Vec3<T>(s*T(0.1), s*T(0.9), s*T(0.2)));
    T worst = 0;
    for (int i = 0; i < 3; i++) for (int j = 0; j < 3; j++) { T d = 0; for (int k = 0; k < 3; k++) d += m[i][k]*m[j][k]; d -= (i==j); if (!(std::abs(d) <= worst)) worst = std::abs(d); }
    printf("%s scale %g: |M M^T - I| = %g  row0 = (%g %g %g)\n", nm, (double)s, (double)worst, (double)m[0][0], (double)m[0][1], (double)m[0][2]);
    return !(worst < 1e-4);
}
int main() { int bad = 0; bad += run<float>(1.f, "float"); bad += run<float>(1e7f, "float"); bad += run<float>(1e13f, "float"); bad += run<float>(1e14f, "float"); bad += run<double>(1e110, "double"); bad += run<float>(1e-14f, "float"); printf(bad ? "VIOLATED\n" : "holds\n"); return bad != 0; }
