#include <ImathVec.h>
#include <cstdio>
#include <cstring>
using namespace IMATH_NAMESPACE;
int main() {
    Vec4<double> v(0.1, 0.7, -0.3, 0.3);
    Vec3<float> u(v), c(v, INF_EXCEPTION);
    unsigned a[3], b[3]; memcpy(a, &u, 12); memcpy(b, &c, 12);
    printf("unchecked %.9g %.9g %.9g  (%08x %08x %08x)\nchecked   %.9g %.9g %.9g  (%08x %08x %08x)\n", u.x, u.y, u.z, a[0], a[1], a[2], c.x, c.y, c.z, b[0], b[1], b[2]);
    return memcmp(a, b, 12) != 0;
}
