#include <ImathMatrixAlgo.h>
#include <iostream>
int main(){ using namespace Imath; V4f a(1,2,3,4), b(5,6,7,8); M44f m = outerProduct(a,b); int bad=0; for(int i=0;i<4;i++)for(int j=0;j<4;j++) if(m[i][j]!=a[i]*b[j]){std::cout<<"m["<<i<<"]["<<j<<"]="<<m[i][j]<<" expected "<<a[i]*b[j]<<"\n";bad++;} return bad?1:0; }
