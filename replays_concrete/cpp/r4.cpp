#include <ImathColorAlgo.h>
#include <iostream>
#include <cstdlib>
using namespace Imath;
template <class T> int scan(const char* nm, long step){ int bad=0; long mx=std::numeric_limits<T>::max();
 for(long r=0;r<=mx && bad<3;r+=step) for(long g=0; g<=mx && bad<3; g+= (mx/7>0?mx/7:1)) for (long b=0;b<=mx&&bad<3;b+=(mx/5>0?mx/5:1)){
   Vec3<T> v((T)r,(T)g,(T)b); Color4<T> c((T)r,(T)g,(T)b,(T)mx);
   Vec3<T> hv = rgb2hsv(v); Color4<T> hc = rgb2hsv(c);
   if (hv.x!=hc.r||hv.y!=hc.g||hv.z!=hc.b){ std::cout<<nm<<" rgb2hsv("<<r<<","<<g<<","<<b<<"): Vec3 -> ("<<(long)hv.x<<","<<(long)hv.y<<","<<(long)hv.z<<")  Color4 -> ("<<(long)hc.r<<","<<(long)hc.g<<","<<(long)hc.b<<")\n"; bad++; }
   Vec3<T> rv = hsv2rgb(v); Color4<T> rc = hsv2rgb(c);
   if (rv.x!=rc.r||rv.y!=rc.g||rv.z!=rc.b){ std::cout<<nm<<" hsv2rgb("<<r<<","<<g<<","<<b<<"): Vec3 -> ("<<(long)rv.x<<","<<(long)rv.y<<","<<(long)rv.z<<")  Color4 -> ("<<(long)rc.r<<","<<(long)rc.g<<","<<(long)rc.b<<")\n"; bad++; }
 } return bad; }
int main(){ int bad=0; bad+=scan<short>("short",97); bad+=scan<int>("int",9999991); bad+=scan<unsigned char>("uchar",1); std::cout<<"disagreements shown: "<<bad<<"\n"; return bad?1:0; }
