#include <ImathShear.h>
#include <iostream>
#include <sstream>
int main(){ Imath::Shear6f h(1,2,3,4,5,6); std::ostringstream s; s<<h; std::cout<<s.str()<<"\n"; int n=0; std::istringstream is(s.str()); std::string t; while(is>>t) n++; std::cout<<"tokens="<<n<<"\n"; return n==6?0:1; }
