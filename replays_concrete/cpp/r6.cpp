#include <ImathMatrixAlgo.h>
#include <iostream>
#include <cmath>
int main(){ using namespace Imath; M33f m; m.setRotation(float(M_PI/2)); m[2][0]=1; m[2][1]=0;   // rotate by 90 degrees, then translate by (1,0); no scale, no shear
 M33f s = sansScaling(m, false); M33f r = m; removeScaling(r, false);
 std::cout<<"input translation ("<<m[2][0]<<","<<m[2][1]<<")  sansScaling -> ("<<s[2][0]<<","<<s[2][1]<<")  removeScaling -> ("<<r[2][0]<<","<<r[2][1]<<")\n";
 bool ok = m.equalWithAbsError(s, 1e-5f) && m.equalWithAbsError(r, 1e-5f); std::cout<<(ok?"ok":"MISMATCH: a matrix without scaling is changed by sansScaling/removeScaling")<<"\n"; return ok?0:1; }
