#include <ImathLine.h>
#include <ImathLineAlgo.h>
#include <iostream>
#include <cmath>
int main(){ using namespace Imath; Line3f l1(V3f(0,0,0),V3f(1,0,0)); Line3f l2(V3f(0,0,1),V3f(1,1,1));
 V3f p,q; bool ok=closestPoints(l1,l2,p,q); float seg=(p-q).length(); float d=l1.distanceTo(l2);
 std::cout<<"closestPoints ok="<<ok<<" segment length="<<seg<<" distanceTo(line)="<<d<<"\n"; return std::fabs(seg-d)<1e-5?0:1; }
