import sys; sys.path.insert(0,'/var/tmp/pybuild/python3_11')
import imath
print([n for n in dir(imath) if '2D' in n])
a = imath.Color4fArray2D(2,2); b = imath.Color4fArray2D(3,3)
print('adding mismatched 2-D colour arrays...'); sys.stdout.flush()
try:
    c = a + b
    print('no error?')
except Exception as e:
    print('raised', type(e).__name__, e)
