import sys, gc; sys.path.insert(0,'/var/tmp/pybuild/python3_11')
import imath
sizes = imath.IntArray(1); sizes[0] = 100000
va = imath.VIntArray(sizes, 7)
row = va[0]                   # FixedArray view of the row's vector storage, no handle
print('row[0] before:', row[0], 'refcount(va)=', sys.getrefcount(va))
del va, sizes; gc.collect()
junk = [imath.IntArray(100000) for _ in range(20)]   # reuse the freed memory
for j in junk:
    for i in range(0, 100000, 1000): j[i] = -1
print('row[0] after releasing the varray:', row[0], row[99000])
