import sys; sys.path.insert(0,'/var/tmp/pybuild/python3_11')
import imath
a = imath.IntArray(4); a.makeReadOnly()
print('exporting a read-only array...'); sys.stdout.flush()
mv = memoryview(a)
print('ok', mv.readonly)
