import sys; sys.path.insert(0,'/var/tmp/pybuild/python3_11')
import imath
# (7) converting constructor from a masked reference
n=200000
a = imath.V3dArray(n)
for i in (0, n-1): a[i] = imath.V3d(i,i,i)
m = imath.IntArray(n)
m[n-1] = 1
v = a[m]                       # masked reference of length 1 whose element is raw index n-1
print('len(v)', len(v), v[0])
f = imath.V3fArray(v)          # converting ctor: allocates 1 element, copies index table [n-1]
print('len(f)', len(f))
print('f[0] =', f[0], '(reads storage[(n-1)] of a 1-element allocation)')
