import sys; sys.path.insert(0,'/var/tmp/pybuild/python3_11')
import imath
# (6) in-place op on a masked view of a read-only array
a = imath.IntArray(5)
for i in range(5): a[i] = i
a.makeReadOnly()
m = imath.IntArray(5)
m[0]=1; m[2]=1
v = a[m]
print('view writable:', v.writable())
try:
    v += 10
    print('in-place += on masked view of read-only array succeeded; a =', list(a[i] for i in range(5)))
except Exception as e:
    print('raised', type(e), e)
