import sys; sys.path.insert(0,'/var/tmp/pybuild/python3_11')
import imath
a = imath.V3fArray(4)
mv = memoryview(a)
print('V3fArray(4): shape', mv.shape, 'itemsize', mv.itemsize, 'nbytes', mv.nbytes, 'expected', 4*3*4)
import ctypes
class PB(ctypes.Structure):
    _fields_=[('buf',ctypes.c_void_p),('obj',ctypes.py_object),('len',ctypes.c_ssize_t),('itemsize',ctypes.c_ssize_t),('readonly',ctypes.c_int),('ndim',ctypes.c_int),('format',ctypes.c_char_p),('shape',ctypes.POINTER(ctypes.c_ssize_t)),('strides',ctypes.POINTER(ctypes.c_ssize_t)),('suboffsets',ctypes.POINTER(ctypes.c_ssize_t)),('internal',ctypes.c_void_p)]
pb=PB()
ctypes.pythonapi.PyObject_GetBuffer.argtypes=[ctypes.py_object, ctypes.POINTER(PB), ctypes.c_int]
r=ctypes.pythonapi.PyObject_GetBuffer(a, ctypes.byref(pb), 0x001c|0x0004)   # PyBUF_STRIDES|ND|FORMAT
print('Py_buffer.len =', pb.len, ' product(shape)*itemsize =', pb.shape[0]*pb.shape[1]*pb.itemsize)
b = imath.IntArray(3)
try:
    i64 = [n for n in dir(imath) if 'Int64' in n or 'Long' in n]
    print(i64)
except Exception as e: print(e)
