import sys, array; sys.path.insert(0,'/var/tmp/pybuild/python3_11')
import imath
x = imath.IntArrayFromBuffer(array.array('f', [1.5, 2.5]))
print('IntArrayFromBuffer(float buffer) accepted:', [x[i] for i in range(len(x))])
n = 4
src = memoryview(array.array('d', [1.0]*(3*n))).cast('B').cast('d', shape=[n,3])
print('source: shape', src.shape, 'nbytes', src.nbytes, '; V3fArray(n) allocates', n*12, 'bytes')
v = imath.V3fArrayFromBuffer(src)
print('accepted: len', len(v), v[0])
n = 50000
src = memoryview(array.array('d', [1.0]*(3*n))).cast('B').cast('d', shape=[n,3])
v = imath.V3fArrayFromBuffer(src); print('big accepted', len(v))
junk=[imath.IntArray(1000) for _ in range(1000)]
print('done')
