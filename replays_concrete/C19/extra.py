import sys, array; sys.path.insert(0,'/var/tmp/pybuild/python3_11')
import imath
# legit round trips still work
a = imath.V3fArray(4)
for i in range(4): a[i] = imath.V3f(i, i+0.5, -i)
mv = memoryview(a)
b = imath.V3fArrayFromBuffer(mv)
print([b[i] for i in range(4)], mv.nbytes, mv.readonly)
ia = imath.IntArrayFromBuffer(array.array('i', [1,2,3])); print([ia[i] for i in range(3)])
da = imath.DoubleArrayFromBuffer(array.array('d', [1.5,2.5])); print([da[i] for i in range(2)])
# read-only export: read-only view sharing memory
r = imath.IntArray(3); r[0]=7; r.makeReadOnly()
m = memoryview(r); print('readonly view', m.readonly, m.tolist())
# writable request on read-only array: private copy
import ctypes
class PB(ctypes.Structure):
    _fields_=[('buf',ctypes.c_void_p),('obj',ctypes.py_object),('len',ctypes.c_ssize_t),('itemsize',ctypes.c_ssize_t),('readonly',ctypes.c_int),('ndim',ctypes.c_int),('format',ctypes.c_char_p),('shape',ctypes.POINTER(ctypes.c_ssize_t)),('strides',ctypes.POINTER(ctypes.c_ssize_t)),('suboffsets',ctypes.POINTER(ctypes.c_ssize_t)),('internal',ctypes.c_void_p)]
pb=PB()
ctypes.pythonapi.PyObject_GetBuffer.argtypes=[ctypes.py_object, ctypes.POINTER(PB), ctypes.c_int]
rc=ctypes.pythonapi.PyObject_GetBuffer(r, ctypes.byref(pb), 0x0001|0x001c|0x0004)
p=ctypes.cast(pb.buf, ctypes.POINTER(ctypes.c_int)); print('writable copy', rc, pb.readonly, p[0], pb.len); p[0]=99
print('source unchanged:', r[0])
v = imath.V3dArray(5); mm = imath.IntArray(5); mm[4]=1; v[4]=imath.V3d(1,2,3)
f = imath.V3fArray(v[mm]); print(len(f), f[0])
