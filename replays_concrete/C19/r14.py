import sys; sys.path.insert(0,'/var/tmp/pybuild/python3_11')
import imath
a = imath.FloatArray2D(3,3); b = imath.FloatArray2D(3,3)
try:
    a[1] = 5.0
except Exception as e: print('scalar with non-tuple index raises', type(e).__name__)
sys.stdout.flush()
a[1] = b        # setitem_vector with a non-tuple index
print('survived')
